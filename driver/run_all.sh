#!/bin/sh
# runs every registered check in the given tier and prints one summary line each
TIER=${1:-quick}
[ $# -gt 0 ] && shift
LIST=${@:-C01 C02 C03 C04 C05 C06 C07 C08 C09 C10 C11 C12 C13 C14 C15 C16 C17 C18 C19 C20}
cd "$(dirname "$0")/.." || exit 2
./setup.sh >/dev/null 2>&1 || { echo "setup failed"; exit 2; }
mkdir -p work
for p in $LIST; do
  s=$(date +%s)
  ./check $p --tier $TIER > work/run_$p.out 2> work/run_$p.err
  rc=$?
  e=$(date +%s)
  echo "$p tier=$TIER exit=$rc secs=$((e-s)) $(grep -c VIOLATION work/run_$p.out) violations; $(tail -1 work/run_$p.err | cut -c1-160)"
done
