\* The code as shipped at the pinned commit (no cleanup of in-flight markers when a
\* cancelled request is dropped): TLC finds the deadlock of the second solve.
\* Not part of any check; kept so that the counterexample is reproducible.
SPECIFICATION Spec
CONSTANTS
  CleanupOnDrop = FALSE
  WithCancel = TRUE
INVARIANTS NoDeadlock
CHECK_DEADLOCK FALSE
