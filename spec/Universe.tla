------------------------------ MODULE Universe ------------------------------
(***************************************************************************)
(* Layer A: what a dependency problem MEANS, independently of SAT.         *)
(*                                                                         *)
(* A universe U and a problem P are plain records (the JSON wire format of *)
(* the harness):                                                           *)
(*   U.pkg[n]  = [exists, cands, rank, favored, locked, excluded, hint]    *)
(*   U.solv[s] = [name, known, reqs, cons]                                 *)
(*   U.vs[v]   = [name, match]                                             *)
(*   P         = [reqs, cons, soft]                                        *)
(* Ids are 1-based naturals; 0 is "none".  A requirement is a non-empty    *)
(* sequence of version sets (length 1 = Single, longer = Union, in order). *)
(***************************************************************************)
EXTENDS Integers, Sequences, FiniteSets

Range(f) == {f[i] : i \in DOMAIN f}

SeqFilter(s, T(_)) ==
  LET RECURSIVE F(_)
      F(i) == IF i > Len(s) THEN <<>>
              ELSE (IF T(s[i]) THEN <<s[i]>> ELSE <<>>) \o F(i + 1)
  IN F(1)

IndexOf(s, x) ==
  IF \E i \in DOMAIN s : s[i] = x
  THEN CHOOSE i \in DOMAIN s : s[i] = x /\ \A j \in 1..(i - 1) : s[j] # x
  ELSE 0

NoDup(s) == \A i, j \in DOMAIN s : s[i] = s[j] => i = j

Names(U) == DOMAIN U.pkg
Solvs(U) == DOMAIN U.solv
VSets(U) == DOMAIN U.vs

NameOf(U, s) == U.solv[s].name

\* listed candidates of a package (<<>> if the provider has no such package)
Cands(U, n) == IF U.pkg[n].exists THEN U.pkg[n].cands ELSE <<>>

\* the partition filter_candidates induces on the candidate list (order kept)
Match(U, v)    == SeqFilter(Cands(U, U.vs[v].name), LAMBDA s : s \in Range(U.vs[v].match))
NonMatch(U, v) == SeqFilter(Cands(U, U.vs[v].name), LAMBDA s : s \notin Range(U.vs[v].match))
MatchSet(U, v) == Range(Match(U, v))

(***************************************************************************)
(* Provider preference order: position in `rank`; the favored candidate    *)
(* is rotated to the front, the others keep their relative order (C20).    *)
(***************************************************************************)
Rank(U, s) == IndexOf(U.pkg[NameOf(U, s)].rank, s)

RECURSIVE InsertSorted(_, _, _)
InsertSorted(U, acc, s) ==
  IF acc = <<>> THEN <<s>>
  ELSE IF Rank(U, s) < Rank(U, Head(acc)) THEN <<s>> \o acc
       ELSE <<Head(acc)>> \o InsertSorted(U, Tail(acc), s)

RECURSIVE RankSort(_, _)
RankSort(U, s) == IF s = <<>> THEN <<>> ELSE InsertSorted(U, RankSort(U, Tail(s)), Head(s))

Sorted(U, v) ==
  LET m   == RankSort(U, Match(U, v))
      fav == U.pkg[U.vs[v].name].favored
      pos == IndexOf(m, fav)
  IN IF fav = 0 \/ pos = 0 THEN m
     ELSE <<fav>> \o SubSeq(m, 1, pos - 1) \o SubSeq(m, pos + 1, Len(m))

RECURSIVE Concat(_)
Concat(ss) == IF ss = <<>> THEN <<>> ELSE Head(ss) \o Concat(Tail(ss))

\* candidates of a requirement in the order the solver must try them
ReqCands(U, r)    == Concat([i \in DOMAIN r |-> Sorted(U, r[i])])
FirstChoice(U, r) == LET c == ReqCands(U, r) IN IF c = <<>> THEN 0 ELSE c[1]

(***************************************************************************)
(* Well-formedness of a provider and a problem (the premise of C04).       *)
(***************************************************************************)
WF(U, P) ==
  /\ \A n \in Names(U) :
       LET p == U.pkg[n] IN
       /\ NoDup(p.cands)
       /\ \A s \in Range(p.cands) : s \in Solvs(U) /\ NameOf(U, s) = n
       /\ Range(p.rank) = Range(p.cands) /\ Len(p.rank) = Len(p.cands)
       /\ p.favored \in {0} \cup Range(p.cands)
       /\ p.locked \in {0} \cup Range(p.cands)
       /\ \A s \in Range(p.excluded) : s \in Solvs(U) /\ NameOf(U, s) = n
       /\ p.hint.mode \in {"none", "all", "some"}
       /\ Range(p.hint.list) \subseteq Range(p.cands)
  /\ \A s \in Solvs(U) :
       /\ U.solv[s].name \in Names(U)
       /\ \A i \in DOMAIN U.solv[s].reqs :
            /\ U.solv[s].reqs[i] # <<>>
            /\ Range(U.solv[s].reqs[i]) \subseteq VSets(U)
       /\ Range(U.solv[s].cons) \subseteq VSets(U)
  /\ \A v \in VSets(U) :
       /\ U.vs[v].name \in Names(U)
       /\ Range(U.vs[v].match) \subseteq Range(Cands(U, U.vs[v].name))
  /\ \A i \in DOMAIN P.reqs : P.reqs[i] # <<>> /\ Range(P.reqs[i]) \subseteq VSets(U)
  /\ Range(P.cons) \subseteq VSets(U)
  /\ Range(P.soft) \subseteq Solvs(U)

(***************************************************************************)
(* C01: validity of a selection S.  X is the set of solvables exempt from  *)
(* their own package's lock / exclusion list (directly named soft          *)
(* requirements); each rule is a separate conjunct so that a violation can *)
(* be classified.                                                          *)
(***************************************************************************)
ReqSat(U, S, r) == \E i \in DOMAIN r : \E s \in MatchSet(U, r[i]) : s \in S
ConSat(U, S, v) == \A s \in S : s \notin Range(NonMatch(U, v))

ReqsOf(U, P, x) == IF x = 0 THEN P.reqs ELSE IF U.solv[x].known THEN U.solv[x].reqs ELSE <<>>
ConsOf(U, P, x) == IF x = 0 THEN P.cons ELSE IF U.solv[x].known THEN U.solv[x].cons ELSE <<>>

V_RootReq(U, P, S)  == \A i \in DOMAIN P.reqs : ReqSat(U, S, P.reqs[i])
V_RootCons(U, P, S) == \A i \in DOMAIN P.cons : ConSat(U, S, P.cons[i])
V_Known(U, S)       == \A s \in S : U.solv[s].known
V_Req(U, S)  == \A s \in S : U.solv[s].known =>
                   \A i \in DOMAIN U.solv[s].reqs : ReqSat(U, S, U.solv[s].reqs[i])
V_Cons(U, S) == \A s \in S : U.solv[s].known =>
                   \A i \in DOMAIN U.solv[s].cons : ConSat(U, S, U.solv[s].cons[i])
V_Excluded(U, S, X) == \A s \in S \ X : s \notin Range(U.pkg[NameOf(U, s)].excluded)
V_Locked(U, S, X)   == \A s \in S \ X :
                          U.pkg[NameOf(U, s)].exists => U.pkg[NameOf(U, s)].locked \in {0, s}
V_OnePerName(U, S)  == \A s, t \in S : NameOf(U, s) = NameOf(U, t) => s = t
\* every selected solvable is a listed candidate of its package, unless it is
\* a directly named soft requirement
V_Listed(U, S, X)   == \A s \in S \ X : s \in Range(Cands(U, NameOf(U, s)))

Valid(U, P, S, X) ==
  /\ V_RootReq(U, P, S) /\ V_RootCons(U, P, S) /\ V_Known(U, S)
  /\ V_Req(U, S) /\ V_Cons(U, S)
  /\ V_Excluded(U, S, X) /\ V_Locked(U, S, X) /\ V_OnePerName(U, S)

\* name of the first conjunct of Valid that fails ("" if none)
WhyInvalid(U, P, S, X) ==
  IF ~V_RootReq(U, P, S) THEN "V_RootReq"
  ELSE IF ~V_RootCons(U, P, S) THEN "V_RootCons"
  ELSE IF ~V_Known(U, S) THEN "V_Known"
  ELSE IF ~V_Req(U, S) THEN "V_Req"
  ELSE IF ~V_Cons(U, S) THEN "V_Cons"
  ELSE IF ~V_Excluded(U, S, X) THEN "V_Excluded"
  ELSE IF ~V_Locked(U, S, X) THEN "V_Locked"
  ELSE IF ~V_OnePerName(U, S) THEN "V_OnePerName"
  ELSE ""

(***************************************************************************)
(* A small propositional toolkit (used for the satisfiability oracle, the  *)
(* conflict-graph refutation and the proof checks on recorded clauses).    *)
(* A literal is <<variable, 0|1>>; a clause is a set of literals.          *)
(***************************************************************************)
Neg(x) == <<x[1], 1 - x[2]>>

\* unit propagation over a set of clauses (sets of literals) from the set A of
\* true literals; the result is the extended set, or {<<-1,-1>>} on conflict.
\* Satisfied clauses are dropped on the way down.
Remain(c, A) == {x \in c : Neg(x) \notin A}
RECURSIVE UP(_, _)
UP(C, A) ==
  LET open == {c \in C : \A x \in c : x \notin A} IN
  IF \E c \in open : Remain(c, A) = {} THEN {<<-1, -1>>}
  ELSE LET new == UNION {Remain(c, A) : c \in {d \in open : Cardinality(Remain(d, A)) = 1}} IN
       IF new = {} THEN A
       ELSE IF \E x \in new : Neg(x) \in new THEN {<<-1, -1>>}
       ELSE UP(open, A \cup new)
RUP(C, lits) == UP(C, {Neg(x) : x \in lits}) = {<<-1, -1>>}

\* DPLL: no assignment extending A satisfies every clause of C
RECURSIVE Unsat(_, _)
Unsat(C, A) ==
  LET r == UP(C, A) IN
  IF r = {<<-1, -1>>} THEN TRUE
  ELSE LET open == {c \in C : \A x \in c : x \notin r} IN
       IF open = {} THEN FALSE
       ELSE LET c == CHOOSE c \in open : TRUE
                x == CHOOSE x \in Remain(c, r) : TRUE
            IN Unsat(open, r \cup {x}) /\ Unsat(open, r \cup {Neg(x)})

(***************************************************************************)
(* C02: satisfiability.  Two independent definitions: a recursive          *)
(* per-package search (SatisfiableSearch) and DPLL over a reference clause *)
(* encoding written directly from the rules of C01 (Satisfiable).  They    *)
(* are cross-checked on enumerated micro universes (MC_Universe).          *)
(***************************************************************************)
Usable(U, s) ==
  /\ U.solv[s].known
  /\ s \notin Range(U.pkg[NameOf(U, s)].excluded)
  /\ U.pkg[NameOf(U, s)].locked \in {0, s}

Hard(P) == [P EXCEPT !.soft = <<>>]

\* cheap partial check used for pruning: constraints already violated by S
PartialOK(U, P, S) == V_RootCons(U, P, S) /\ V_Cons(U, S)

RECURSIVE SatFrom(_, _, _, _)
SatFrom(U, P, ns, S) ==
  IF ns = <<>> THEN Valid(U, P, S, {})
  ELSE \/ SatFrom(U, P, Tail(ns), S)
       \/ \E c \in Range(Cands(U, Head(ns))) :
            /\ Usable(U, c)
            /\ PartialOK(U, P, S \cup {c})
            /\ SatFrom(U, P, Tail(ns), S \cup {c})

NameSeq(U) == [i \in 1..Len(U.pkg) |-> i]
SatisfiableSearch(U, P) == SatFrom(U, Hard(P), NameSeq(U), {})

\* reference encoding: variable 0 is the root, variable s a listed solvable
Listed(U) == UNION {Range(Cands(U, n)) : n \in Names(U)}
ReqClause(U, x, r) == {<<x, 0>>} \cup {<<c, 1>> : c \in UNION {MatchSet(U, r[j]) : j \in DOMAIN r}}
ConClauses(U, x, v) == {{<<x, 0>>, <<c, 0>>} : c \in Range(NonMatch(U, v))}
RefClauses(U, P) ==
       {ReqClause(U, 0, P.reqs[i]) : i \in DOMAIN P.reqs}
  \cup UNION {ConClauses(U, 0, P.cons[i]) : i \in DOMAIN P.cons}
  \cup {{<<s, 0>>} : s \in {t \in Listed(U) : ~Usable(U, t)}}
  \cup UNION {{ReqClause(U, s, U.solv[s].reqs[i]) : i \in DOMAIN U.solv[s].reqs}
               : s \in {t \in Listed(U) : Usable(U, t)}}
  \cup UNION {UNION {ConClauses(U, s, U.solv[s].cons[i]) : i \in DOMAIN U.solv[s].cons}
               : s \in {t \in Listed(U) : Usable(U, t)}}
  \cup UNION {UNION {{{<<a, 0>>, <<b, 0>>} : b \in Range(Cands(U, n)) \ {a}} : a \in Range(Cands(U, n))}
               : n \in Names(U)}
Satisfiable(U, P) == ~Unsat(RefClauses(U, Hard(P)), {<<0, 1>>})

\* the naive definition, for cross-checking the search on micro universes
SatisfiableNaive(U, P) == \E S \in SUBSET Solvs(U) :
   /\ \A s \in S : s \in Range(Cands(U, NameOf(U, s)))
   /\ Valid(U, Hard(P), S, {})

\* size of the search space (product of |cands|+1), to bound the oracle
RECURSIVE Space(_, _)
Space(U, ns) == IF ns = <<>> THEN 1
                ELSE (Len(Cands(U, Head(ns))) + 1) * Space(U, Tail(ns))
SearchSpace(U) == Space(U, NameSeq(U))

(***************************************************************************)
(* C05: every selected solvable is supported.                              *)
(***************************************************************************)
RECURSIVE SupFix(_, _, _)
SupFix(U, S, R) ==
  LET R2 == R \cup {s \in S : \E p \in R : U.solv[p].known /\
                 \E i \in DOMAIN U.solv[p].reqs : \E j \in DOMAIN U.solv[p].reqs[i] :
                    s \in MatchSet(U, U.solv[p].reqs[i][j])}
  IN IF R2 = R THEN R ELSE SupFix(U, S, R2)

SupportedSet(U, P, S) ==
  LET R0 == {s \in S : \/ s \in Range(P.soft)
                       \/ \E i \in DOMAIN P.reqs : \E j \in DOMAIN P.reqs[i] :
                             s \in MatchSet(U, P.reqs[i][j])}
  IN SupFix(U, S, R0)
Supported(U, P, S) == S \subseteq SupportedSet(U, P, S)

(***************************************************************************)
(* C07: the first-choice closure and the premise "conflict free".          *)
(***************************************************************************)
Firsts(U, rs) == {FirstChoice(U, rs[i]) : i \in DOMAIN rs}

RECURSIVE PCFix(_, _, _)
PCFix(U, P, F) ==
  LET F2 == F \cup UNION {Firsts(U, ReqsOf(U, P, x)) : x \in F \ {0}}
  IN IF F2 = F THEN F ELSE PCFix(U, P, F2)
PreferredClosure(U, P) == PCFix(U, P, Firsts(U, P.reqs))

ConflictFree(U, P) ==
  LET F == PreferredClosure(U, P) IN
  /\ 0 \notin F
  /\ Valid(U, Hard(P), F, {})
  /\ \A x \in F \cup {0} : \A i \in DOMAIN ReqsOf(U, P, x) :
       LET r == ReqsOf(U, P, x)[i] IN Range(ReqCands(U, r)) \cap F = {FirstChoice(U, r)}

(***************************************************************************)
(* C08: direct requirements get their best candidate when possible.        *)
(***************************************************************************)
AllSingle(P)     == \A i \in DOMAIN P.reqs : Len(P.reqs[i]) = 1
DirectBest(U, P) == Firsts(U, P.reqs)

RECURSIVE SatSeed(_, _, _, _, _)
SatSeed(U, P, ns, S, D) ==
  IF ns = <<>> THEN Valid(U, P, S, {})
  ELSE IF \E d \in D : NameOf(U, d) = Head(ns) THEN SatSeed(U, P, Tail(ns), S, D)
       ELSE \/ SatSeed(U, P, Tail(ns), S, D)
            \/ \E c \in Range(Cands(U, Head(ns))) :
                 /\ Usable(U, c) /\ PartialOK(U, P, S \cup {c})
                 /\ SatSeed(U, P, Tail(ns), S \cup {c}, D)

DirectBestFeasibleSearch(U, P) ==
  LET D == DirectBest(U, P) IN
  /\ AllSingle(P) /\ 0 \notin D /\ V_OnePerName(U, D)
  /\ \A d \in D : Usable(U, d)
  /\ SatSeed(U, Hard(P), NameSeq(U), D, D)

DirectBestFeasible(U, P) ==
  LET D == DirectBest(U, P) IN
  /\ AllSingle(P) /\ 0 \notin D /\ V_OnePerName(U, D)
  /\ ~Unsat(RefClauses(U, Hard(P)), {<<0, 1>>} \cup {<<d, 1>> : d \in D})

(***************************************************************************)
(* C09: names a dependency record mentions.                                *)
(***************************************************************************)
NamesOfReqs(U, rs) == UNION {{U.vs[rs[i][j]].name : j \in DOMAIN rs[i]} : i \in DOMAIN rs}
NamesOfCons(U, cs) == {U.vs[cs[i]].name : i \in DOMAIN cs}
Mentioned(U, P, x) == NamesOfReqs(U, ReqsOf(U, P, x)) \cup NamesOfCons(U, ConsOf(U, P, x))

(***************************************************************************)
(* C14: the inclusion obligation for soft requirements (clean prefix).     *)
(***************************************************************************)
RECURSIVE KFix(_, _, _, _)
KFix(U, P, Acc, K) ==
  LET need == UNION {{FirstChoice(U, ReqsOf(U, P, x)[i]) :
                        i \in {j \in DOMAIN ReqsOf(U, P, x) :
                                 Range(ReqCands(U, ReqsOf(U, P, x)[j])) \cap (Acc \cup K) = {}}}
                     : x \in K \ {0}}
      K2 == K \cup need
  IN IF K2 = K THEN K ELSE KFix(U, P, Acc, K2)

SoftCompat(U, P, Acc, K) ==
  /\ 0 \notin K
  /\ Valid(U, Hard(P), Acc \cup K, {})
  /\ \A s \in K : s \in Range(Cands(U, NameOf(U, s)))
  /\ \A x \in K : \A i \in DOMAIN ReqsOf(U, P, x) :
        Cardinality(Range(ReqCands(U, ReqsOf(U, P, x)[i])) \cap (Acc \cup K)) = 1

RECURSIVE SoftWalk(_, _, _, _, _)
SoftWalk(U, P, xs, Acc, Ob) ==
  IF xs = <<>> THEN Ob
  ELSE LET X == Head(xs) IN
       IF X \in Acc THEN SoftWalk(U, P, Tail(xs), Acc, Ob \cup {X})
       ELSE LET K == KFix(U, P, Acc, {X}) IN
            IF SoftCompat(U, P, Acc, K)
            THEN SoftWalk(U, P, Tail(xs), Acc \cup K, Ob \cup {X})
            ELSE Ob

SoftObliged(U, P) ==
  IF ConflictFree(U, Hard(P))
  THEN SoftWalk(U, P, P.soft, PreferredClosure(U, Hard(P)), {})
  ELSE {}
=============================================================================
