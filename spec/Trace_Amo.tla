----------------------------- MODULE Trace_Amo ------------------------------
(***************************************************************************)
(* C15 on the REAL clause stream of the at-most-one encoding.  For a list  *)
(* of sizes n the harness reveals a package with n candidates to the real  *)
(* encoder and reports the forbid clauses it emitted as                    *)
(*    <<registration index of the candidate, helper index, polarity>>.     *)
(* TLC judges each report with the statements of AtMostOne.tla evaluated   *)
(* on what the code produced (not on the model):                           *)
(*    C15_PairNotExcludedAtSize   AtMostOne!Excl - any two candidates      *)
(*                                disagree on the polarity of some helper  *)
(*    C15_CandidateBlocked        AtMostOne!Cons - no candidate is bound   *)
(*                                to both polarities of a helper           *)
(*    C15_StrayClause             every forbid clause is about a           *)
(*                                registered candidate and a helper of     *)
(*                                the package                              *)
(* Whether the stream is exactly the one AtMostOne!Add produces (minimal   *)
(* number of helpers, bit b of the index) is conformance: COVER tag        *)
(* `stream_as_model` / `stream_differs_from_model`, no rule.               *)
(***************************************************************************)
EXTENDS Integers, Sequences, FiniteSets, Json, IOUtils, TLC

Rec == ndJsonDeserialize(IOEnv.TRACE)
VARIABLE l

Fail(n, rule, info) == PrintT("RULEFAIL|" \o ToString(n) \o "|1|" \o ToString(l) \o "|" \o rule \o "|" \o ToString(info))
Chk(n, ok, rule, info) == IF ok THEN TRUE ELSE Fail(n, rule, info)

ClsOf(r) == {<<r.cls[k][1], r.cls[k][2], r.cls[k][3]>> : k \in DOMAIN r.cls}
\* per candidate: the helper literals it is bound to
Sig(C, i) == {<<c[2], c[3]>> : c \in {d \in C : d[1] = i}}
BitOf(i, b) == (i \div (2 ^ b)) % 2 = 1
RECURSIVE MinHelpers(_, _)
MinHelpers(n, h) == IF n > 2 ^ h THEN MinHelpers(n, h + 1) ELSE h
ModelCls(n) == IF n < 2 THEN {}
               ELSE {<<i, b, IF BitOf(i, b) THEN 1 ELSE 0>> : i \in 0..(n - 1), b \in 0..(MinHelpers(n, 0) - 1)}

Init == l = 1
Step ==
  /\ l <= Len(Rec) /\ l' = l + 1
  /\ LET r == Rec[l]
         C == ClsOf(r)
         sig == [i \in 0..(r.n - 1) |-> Sig(C, i)]
         \* When every candidate is bound to exactly one polarity of every helper in use, two
         \* candidates clash iff their signatures differ: Excl is injectivity of `sig` (n log n);
         \* otherwise the pairs are examined one by one
         H == {c[2] : c \in C}
         regular == \A i \in 0..(r.n - 1) : {x[1] : x \in sig[i]} = H /\ Cardinality(sig[i]) = Cardinality(H)
         bad == IF regular
                THEN (IF Cardinality({sig[i] : i \in 0..(r.n - 1)}) = r.n THEN {}
                      ELSE {CHOOSE p \in (0..(r.n - 1)) \X (0..(r.n - 1)) : p[1] < p[2] /\ sig[p[1]] = sig[p[2]]})
                ELSE {p \in (0..(r.n - 1)) \X (0..(r.n - 1)) :
                        p[1] < p[2] /\ ~\E x \in sig[p[1]] : <<x[1], 1 - x[2]>> \in sig[p[2]]}
     IN /\ PrintT("BEGIN|" \o ToString(r.n) \o "|1|amo")
        /\ Chk(r.n, \A c \in C : c[1] < r.n /\ c[2] < 64, "C15_StrayClause", {c \in C : ~(c[1] < r.n /\ c[2] < 64)})
        /\ Chk(r.n, bad = {}, "C15_PairNotExcludedAtSize", IF bad = {} THEN {} ELSE {CHOOSE p \in bad : TRUE})
        /\ Chk(r.n, \A i \in 0..(r.n - 1) : \A x \in sig[i] : <<x[1], 1 - x[2]>> \notin sig[i],
               "C15_CandidateBlocked", r.n)
        /\ PrintT("COVER|" \o ToString(r.n) \o "|1|" \o
                  (IF C = ModelCls(r.n) THEN "stream_as_model" ELSE "stream_differs_from_model"))

Spec == Init /\ [][Step]_l
Accepted ==
  IF TLCGet("stats").diameter - 1 = Len(Rec) THEN TRUE
  ELSE PrintT("NOTCONSUMED|" \o ToString(TLCGet("stats").diameter) \o "|" \o ToString(Len(Rec))) /\ FALSE
=============================================================================
