------------------------------ MODULE MC_Pool ------------------------------
EXTENDS Pool, TLC, Json

Key == ToJson(<<bulk, names, strs, vss, solvs, unions>>)
KeyP == ToJson(<<bulk', names', strs', vss', solvs', unions'>>)
ObsP == [ret |-> ret', bulk |-> bulk',
         n_names |-> bulk' + Len(names'), n_strs |-> bulk' + Len(strs'), n_vss |-> bulk' + Len(vss'),
         n_solvs |-> bulk' + Len(solvs'), n_unions |-> bulk' + Len(unions'),
         names |-> names', strs |-> strs', vss |-> vss', solvs |-> solvs', unions |-> unions',
         lookup |-> [v \in 1..2 |-> IF IndexOf(names', v) # 0 THEN bulk' + IndexOf(names', v) - 1 ELSE -1],
         stable |-> TRUE]
Emit(op) == PrintT("EDGE|" \o Key \o "|" \o ToJson(op) \o "|" \o KeyP \o "|" \o ToJson(ObsP))

\* the bulk load is the first operation of a behaviour (a pseudo initial state feeds it)
VARIABLE started
MCInit == /\ started = FALSE /\ bulk = 0
          /\ names = <<>> /\ strs = <<>> /\ vss = <<>> /\ solvs = <<>> /\ unions = <<>> /\ ret = -1
          /\ PrintT("INIT|" \o ToJson(<<"start">>) \o "|" \o ToJson([start |-> TRUE]))
Start == /\ ~started /\ started' = TRUE
         /\ bulk' \in BulkSizes \cup {0}
         /\ UNCHANGED <<names, strs, vss, solvs, unions, ret>>
         /\ PrintT("EDGE|" \o ToJson(<<"start">>) \o "|" \o ToJson([op |-> "bulk", a |-> bulk', b |-> 0]) \o "|" \o KeyP \o "|" \o ToJson(ObsP))
MCNext == \/ Start
          \/ /\ started /\ UNCHANGED started
             /\ \/ \E n \in NameVals : InternName(n) /\ Emit([op |-> "name", a |-> n, b |-> 0])
                \/ \E s \in StrVals : InternString(s) /\ Emit([op |-> "string", a |-> s, b |-> 0])
                \/ \E pos \in 1..2, v \in VsVals : InternVs(pos, v) /\ Emit([op |-> "vs", a |-> pos, b |-> v])
                \/ \E pos \in 1..2, r \in RecVals : InternSolvable(pos, r) /\ Emit([op |-> "solvable", a |-> pos, b |-> r])
                \/ \E a \in 1..2, b \in 1..2 : InternUnion(a, b) /\ Emit([op |-> "union", a |-> a, b |-> b])
                \* unions of one, three and four members (the three representations of the
                \* small vector behind a union); the driver hands the members over through
                \* an iterator that knows its length (b = 1) or one that does not (b = 2)
                \/ \E a \in 1..2, it \in {1} : InternUnionSeq(<<a>>) /\ Emit([op |-> "union1", a |-> a, b |-> it])
                \/ \E a \in 1..2, it \in 1..2 : InternUnionSeq(<<a, 3 - a, a>>) /\ Emit([op |-> "union3", a |-> a, b |-> it])
                \/ \E a \in 1..2, it \in {2} : InternUnionSeq(<<a, a, 3 - a, a>>) /\ Emit([op |-> "union4", a |-> a, b |-> it])
                \/ \E a \in 1..2, b \in 1..2 : InternUnionNested(a, b) /\ Emit([op |-> "union_nested", a |-> a, b |-> b])
MCSpec == MCInit /\ [][MCNext]_<<vars, started>>
=============================================================================
