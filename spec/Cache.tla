------------------------------- MODULE Cache -------------------------------
(***************************************************************************)
(* C20: the public SolverCache API as a sequential object over a universe  *)
(* U.  State: which answers are cached.  Every query returns a value and   *)
(* the sequence of provider calls it causes; a repeated query returns the  *)
(* same value without any call.                                            *)
(***************************************************************************)
EXTENDS Universe

VARIABLES U,     \* the universe served by the provider (fixed per behaviour)
          cC,    \* names whose candidates are cached
          cD,    \* solvables whose dependencies are cached
          cM,    \* version sets whose matching candidates are cached
          cN,    \* version sets whose non-matching candidates are cached
          cS,    \* requirements (sequences of version sets) whose sorted candidates are cached
          last   \* [val, calls] of the last query
vars == <<U, cC, cD, cM, cN, cS, last>>

St == [cC |-> cC, cD |-> cD, cM |-> cM, cN |-> cN, cS |-> cS]

Hinted(UU, n) == IF ~UU.pkg[n].exists THEN {}
                 ELSE IF UU.pkg[n].hint.mode = "all" THEN Range(UU.pkg[n].cands)
                 ELSE IF UU.pkg[n].hint.mode = "some" THEN Range(UU.pkg[n].hint.list) ELSE {}

\* each helper returns [st, calls]
FetchCands(s, n) == IF n \in s.cC THEN [st |-> s, calls |-> <<>>]
               ELSE [st |-> [s EXCEPT !.cC = s.cC \cup {n}], calls |-> << <<"cands", n, 0>> >>]

Matching(s, v) ==
  IF v \in s.cM THEN [st |-> s, calls |-> <<>>]
  ELSE LET a == FetchCands(s, U.vs[v].name) IN
       [st |-> [a.st EXCEPT !.cM = a.st.cM \cup {v}], calls |-> a.calls \o << <<"filter", v, 0>> >>]

NonMatching(s, v) ==
  IF v \in s.cN THEN [st |-> s, calls |-> <<>>]
  ELSE LET a == FetchCands(s, U.vs[v].name) IN
       [st |-> [a.st EXCEPT !.cN = a.st.cN \cup {v}], calls |-> a.calls \o << <<"filter", v, 1>> >>]

MinOf(S) == IF S = {} THEN 0 ELSE CHOOSE x \in S : \A y \in S : x <= y
SortedVs(s, v) ==
  IF <<v>> \in s.cS THEN [st |-> s, calls |-> <<>>]
  ELSE LET a == Matching(s, v)
           ms == MatchSet(U, v) IN
       [st |-> [a.st EXCEPT !.cS = a.st.cS \cup {<<v>>}],
        calls |-> a.calls \o << <<"sort", MinOf(ms), Cardinality(ms)>> >>]

RECURSIVE SortedAll(_, _, _)
SortedAll(s, r, i) == IF i > Len(r) THEN [st |-> s, calls |-> <<>>]
                      ELSE LET a == SortedVs(s, r[i])
                               b == SortedAll(a.st, r, i + 1)
                           IN [st |-> b.st, calls |-> a.calls \o b.calls]
SortedReq(s, r) ==
  IF Len(r) = 1 THEN SortedVs(s, r[1])
  ELSE IF r \in s.cS THEN [st |-> s, calls |-> <<>>]
  ELSE LET a == SortedAll(s, r, 1) IN [st |-> [a.st EXCEPT !.cS = a.st.cS \cup {r}], calls |-> a.calls]

Deps(s, x) == IF x \in s.cD THEN [st |-> s, calls |-> <<>>]
              ELSE [st |-> [s EXCEPT !.cD = s.cD \cup {x}], calls |-> << <<"deps", x, 0>> >>]

Set(r, val) ==
  /\ cC' = r.st.cC /\ cD' = r.st.cD /\ cM' = r.st.cM /\ cN' = r.st.cN /\ cS' = r.st.cS
  /\ last' = [val |-> val, calls |-> r.calls]
  /\ UNCHANGED U

CandsVal(n) == IF U.pkg[n].exists
               THEN [cands |-> U.pkg[n].cands, favored |-> U.pkg[n].favored, locked |-> U.pkg[n].locked,
                     excluded |-> U.pkg[n].excluded]
               ELSE [cands |-> <<>>, favored |-> 0, locked |-> 0, excluded |-> <<>>]

QCands(n)     == Set(FetchCands(St, n), CandsVal(n))
QMatching(v)  == Set(Matching(St, v), Match(U, v))
QNonMatch(v)  == Set(NonMatching(St, v), NonMatch(U, v))
QSorted(r)    == Set(SortedReq(St, r), ReqCands(U, r))
QDeps(x)      == Set(Deps(St, x), [known |-> U.solv[x].known,
                                   reqs |-> IF U.solv[x].known THEN U.solv[x].reqs ELSE <<>>,
                                   cons |-> IF U.solv[x].known THEN U.solv[x].cons ELSE <<>>])

\* are_dependencies_available_for, for every solvable, as part of the observation
Avail == [x \in DOMAIN U.solv |-> x \in cD \/ x \in UNION {Hinted(U, n) : n \in cC}]
Obs == [val |-> last.val, calls |-> last.calls, avail |-> Avail]

(***************************************************************************)
(* Properties (C20)                                                        *)
(***************************************************************************)
\* the cached lists partition the candidate list as filter_candidates defines
Partition == \A v \in DOMAIN U.vs :
   /\ Range(Match(U, v)) \cap Range(NonMatch(U, v)) = {}
   /\ Range(Match(U, v)) \cup Range(NonMatch(U, v)) = Range(Cands(U, U.vs[v].name))
\* sorted = the matching ones in provider order with the favored candidate first
SortedIsPermutation == \A v \in DOMAIN U.vs :
   /\ Range(Sorted(U, v)) = MatchSet(U, v) /\ Len(Sorted(U, v)) = Len(Match(U, v))
   /\ LET f == U.pkg[U.vs[v].name].favored IN
        f \in MatchSet(U, v) => Sorted(U, v)[1] = f
   /\ \A i, j \in DOMAIN Sorted(U, v) :
        (i < j /\ Sorted(U, v)[i] # U.pkg[U.vs[v].name].favored /\ Sorted(U, v)[j] # U.pkg[U.vs[v].name].favored)
           => Rank(U, Sorted(U, v)[i]) < Rank(U, Sorted(U, v)[j])
=============================================================================
