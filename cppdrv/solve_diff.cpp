// C17: solves the exported cases through the C++ binding (resolvo::solve with a
// C++ DependencyProvider) and prints one result line per case:
//   RESULT <id> sat <n> s1 .. sn
//   RESULT <id> err <hex of the error text>
// The provider answers exactly as the harness's Rust TableProvider does (same
// display strings, same union ids), so the results must be identical.
#include <resolvo.h>

#include <algorithm>
#include <cstdint>
#include <cstdio>
#include <fstream>
#include <iostream>
#include <optional>
#include <sstream>
#include <string>
#include <vector>

using resolvo::NameId;
using resolvo::SolvableId;
using resolvo::StringId;
using resolvo::VersionSetId;
using resolvo::VersionSetUnionId;

struct Pkg {
    bool exists = false;
    std::vector<uint32_t> cands, rank, excluded, hint;
    uint32_t favored = 0, locked = 0;
};
struct Solv {
    uint32_t name = 0;
    std::vector<std::vector<uint32_t>> reqs;
    std::vector<uint32_t> cons;
};
struct Vs {
    uint32_t name = 0;
    std::vector<uint32_t> match;
};

// layout checks (C17: "layout mismatch")
static_assert(sizeof(SolvableId) == 4 && alignof(SolvableId) == 4, "SolvableId layout");
static_assert(sizeof(NameId) == 4 && sizeof(VersionSetId) == 4 && sizeof(StringId) == 4, "id layout");
static_assert(sizeof(resolvo::Slice<SolvableId>) == 2 * sizeof(void *), "Slice layout");
static_assert(sizeof(resolvo::Vector<SolvableId>) == sizeof(void *), "Vector is one pointer");

struct Provider : public resolvo::DependencyProvider {
    std::vector<Pkg> pkg;
    std::vector<Solv> solv;
    std::vector<Vs> vs;
    std::vector<std::vector<VersionSetId>> unions;       // union id -> members
    std::vector<std::vector<uint32_t>> union_keys;        // wire version sets
    std::vector<SolvableId> favored_store, locked_store;  // stable storage for the pointers

    // wire ids are 1-based; resolvo ids are wire - 1
    static uint32_t w(SolvableId s) { return s.id + 1; }

    resolvo::Requirement requirement(const std::vector<uint32_t> &r) {
        if (r.size() == 1) return resolvo::requirement_single(VersionSetId{r[0] - 1});
        for (size_t i = 0; i < union_keys.size(); ++i)
            if (union_keys[i] == r) return resolvo::requirement_union(VersionSetUnionId{(uint32_t)i});
        union_keys.push_back(r);
        std::vector<VersionSetId> m;
        for (auto v : r) m.push_back(VersionSetId{v - 1});
        unions.push_back(m);
        return resolvo::requirement_union(VersionSetUnionId{(uint32_t)(unions.size() - 1)});
    }

    void preintern() {
        for (auto &s : solv)
            for (auto &r : s.reqs)
                if (r.size() > 1) requirement(r);
        // the vectors must not reallocate while resolvo holds slices into them
        unions.reserve(unions.size() + 64);
        union_keys.reserve(union_keys.size() + 64);
    }

    resolvo::String display_solvable(SolvableId s) override {
        return resolvo::String("s" + std::to_string(w(s)));
    }
    resolvo::String display_merged_solvables(resolvo::Slice<SolvableId> solvables) override {
        if (solvables.empty()) return resolvo::String("");
        if (getenv("DBG")) fprintf(stderr, "merged: n=%zu first=%u nsolv=%zu\n", solvables.size(), solvables[0].id, solv.size());
        std::vector<std::string> versions;
        for (auto s : solvables) versions.push_back("s" + std::to_string(w(s)));
        std::sort(versions.begin(), versions.end());
        versions.erase(std::unique(versions.begin(), versions.end()), versions.end());
        std::string out = "p" + std::to_string(solv[solvables[0].id].name) + " ";
        for (size_t i = 0; i < versions.size(); ++i) {
            if (i) out += " | ";
            out += versions[i];
        }
        return resolvo::String(out);
    }
    resolvo::String display_name(NameId n) override { return resolvo::String("p" + std::to_string(n.id + 1)); }
    resolvo::String display_version_set(VersionSetId v) override {
        return resolvo::String("vs" + std::to_string(v.id + 1));
    }
    resolvo::String display_string(StringId s) override {
        if (s.id % 2 == 0) return resolvo::String("p" + std::to_string(s.id / 2 + 1) + " excludes it");
        return resolvo::String("dependencies of p" + std::to_string(s.id / 2 + 1) + " candidates are unknown");
    }
    NameId version_set_name(VersionSetId v) override { return NameId{vs[v.id].name - 1}; }
    NameId solvable_name(SolvableId s) override { return NameId{solv[s.id].name - 1}; }
    resolvo::Slice<VersionSetId> version_sets_in_union(VersionSetUnionId u) override {
        return {unions[u.id].data(), unions[u.id].size()};
    }
    // Answers for even ids are built once, kept by the provider and handed out as
    // copies (the vectors are then shared: reference count 2 when Rust consumes
    // them); answers for odd ids are built afresh on every call (reference count 1).
    std::vector<std::optional<resolvo::Candidates>> stored_cands;
    std::vector<std::optional<resolvo::Dependencies>> stored_deps;
    std::vector<std::optional<resolvo::Vector<SolvableId>>> stored_filter;

    resolvo::Candidates get_candidates(NameId n) override {
        if (n.id % 2 == 0) {
            if (stored_cands.size() <= n.id) stored_cands.resize(n.id + 1);
            if (!stored_cands[n.id]) stored_cands[n.id] = build_candidates(n);
            return *stored_cands[n.id];
        }
        return build_candidates(n);
    }
    resolvo::Candidates build_candidates(NameId n) {
        resolvo::Candidates c;
        c.favored = nullptr;   // the generated struct has no constructor
        c.locked = nullptr;
        const Pkg &p = pkg[n.id];
        if (!p.exists) return c;
        for (auto s : p.cands) c.candidates.push_back(SolvableId{s - 1});
        if (p.favored) c.favored = &favored_store[n.id];
        if (p.locked) { c.locked = &locked_store[n.id]; if (getenv("DBG")) fprintf(stderr, "locked pkg %u -> %u\n", n.id, c.locked->id); }
        for (auto s : p.hint) c.hint_dependencies_available.push_back(SolvableId{s - 1});
        for (auto s : p.excluded)
            c.excluded.push_back(resolvo::ExcludedSolvable{SolvableId{s - 1}, StringId{2 * n.id}});
        return c;
    }
    size_t rank_of(uint32_t s_w) {
        const Pkg &p = pkg[solv[s_w - 1].name - 1];
        auto it = std::find(p.rank.begin(), p.rank.end(), s_w);
        return it == p.rank.end() ? SIZE_MAX : (size_t)(it - p.rank.begin());
    }
    void sort_candidates(resolvo::Slice<SolvableId> solvables) override {
        std::stable_sort(solvables.begin(), solvables.end(),
                         [&](SolvableId a, SolvableId b) { return rank_of(w(a)) < rank_of(w(b)); });
    }
    resolvo::Vector<SolvableId> filter_candidates(resolvo::Slice<SolvableId> candidates, VersionSetId v,
                                                  bool inverse) override {
        resolvo::Vector<SolvableId> out;
        const Vs &x = vs[v.id];
        for (auto s : candidates) {
            bool m = std::find(x.match.begin(), x.match.end(), w(s)) != x.match.end();
            if (m != inverse) out.push_back(s);
        }
        return out;
    }
    resolvo::Dependencies get_dependencies(SolvableId s) override {
        if (s.id % 2 == 0) {
            if (stored_deps.size() <= s.id) stored_deps.resize(s.id + 1);
            if (!stored_deps[s.id]) stored_deps[s.id] = build_dependencies(s);
            return *stored_deps[s.id];
        }
        return build_dependencies(s);
    }
    resolvo::Dependencies build_dependencies(SolvableId s) {
        resolvo::Dependencies d;
        for (auto &r : solv[s.id].reqs) d.requirements.push_back(requirement(r));
        for (auto v : solv[s.id].cons) d.constrains.push_back(VersionSetId{v - 1});
        return d;
    }
};

static std::vector<uint32_t> read_list(std::istream &in) {
    size_t n;
    in >> n;
    std::vector<uint32_t> v(n);
    for (auto &x : v) in >> x;
    return v;
}

static std::string hex(const std::string &s) {
    static const char *d = "0123456789abcdef";
    std::string o;
    for (unsigned char c : s) {
        o.push_back(d[c >> 4]);
        o.push_back(d[c & 15]);
    }
    return o;
}

int main(int argc, char **argv) {
    if (argc < 2) {
        std::cerr << "usage: solve_diff <cases.txt>\n";
        return 2;
    }
    std::ifstream f(argv[1]);
    std::string line;
    // ONE result vector for all cases, never cleared by the driver (the usual shape of a
    // caller that solves in a loop): a solve must replace what an earlier solve left in it,
    // and what it hands back must not share storage with anything the library still owns
    resolvo::Vector<SolvableId> result;
    resolvo::Vector<SolvableId> previous;   // a second handle on the last result's buffer
    while (std::getline(f, line)) {
        std::istringstream in(line);
        std::string tag;
        uint64_t id;
        size_t npkg, nsolv, nvs;
        in >> tag >> id >> npkg >> nsolv >> nvs;
        if (tag != "CASE") continue;
        Provider p;
        p.pkg.resize(npkg);
        p.solv.resize(nsolv);
        p.vs.resize(nvs);
        p.favored_store.resize(npkg);
        p.locked_store.resize(npkg);
        for (size_t i = 0; i < npkg; ++i) {
            Pkg &k = p.pkg[i];
            uint32_t ex;
            in >> ex;
            k.exists = ex != 0;
            k.cands = read_list(in);
            k.rank = read_list(in);
            in >> k.favored >> k.locked;
            k.excluded = read_list(in);
            k.hint = read_list(in);
            if (k.favored) p.favored_store[i] = SolvableId{k.favored - 1};
            if (k.locked) p.locked_store[i] = SolvableId{k.locked - 1};
        }
        for (auto &s : p.solv) {
            size_t nr;
            in >> s.name >> nr;
            for (size_t j = 0; j < nr; ++j) s.reqs.push_back(read_list(in));
            s.cons = read_list(in);
        }
        for (auto &v : p.vs) {
            in >> v.name;
            v.match = read_list(in);
        }
        p.preintern();
        size_t nr;
        in >> nr;
        resolvo::Vector<resolvo::Requirement> reqs;
        for (size_t j = 0; j < nr; ++j) reqs.push_back(p.requirement(read_list(in)));
        resolvo::Vector<VersionSetId> cons;
        for (auto v : read_list(in)) cons.push_back(VersionSetId{v - 1});
        resolvo::Vector<SolvableId> soft;
        for (auto s : read_list(in)) soft.push_back(SolvableId{s - 1});
        resolvo::Problem problem = {reqs, cons, soft};
        previous = result;
        resolvo::String err = resolvo::solve(p, problem, result);
        std::string e{std::string_view(err)};
        if (e.empty()) {
            std::cout << "RESULT " << id << " sat " << result.size();
            for (auto s : result) std::cout << " " << (s.id + 1);
            std::cout << "\n";
        } else {
            std::cout << "RESULT " << id << " err " << hex(e) << "\n";
        }
    }
    return 0;
}
