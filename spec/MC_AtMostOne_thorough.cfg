SPECIFICATION MCSpec
CONSTANT MaxN = 1030
INVARIANTS ExclAt ConsAt CompleteAt Minimal
CHECK_DEADLOCK FALSE
