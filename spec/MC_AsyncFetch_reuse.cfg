SPECIFICATION Spec
CONSTANTS
  CleanupOnDrop = TRUE
  WithCancel = TRUE
INVARIANTS NoDeadlock NoDuplicateCall
CHECK_DEADLOCK FALSE
