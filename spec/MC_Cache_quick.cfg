SPECIFICATION MCSpec
CONSTANT Family = "quick"
INVARIANTS InvPartition InvSorted
CHECK_DEADLOCK FALSE
