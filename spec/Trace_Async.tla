---------------------------- MODULE Trace_Async ----------------------------
(***************************************************************************)
(* Layer C for the fetch protocol: follows the FIRST encode of every        *)
(* recorded asynchronous solve through AsyncCore.  At every quiescent point *)
(* the multiset of provider requests the real solver has outstanding must   *)
(* equal the model's; every completion the harness chose is applied to the  *)
(* model.  Because the provider cannot tell which of two identical filter / *)
(* sort requests (issued by different tasks) it answered, the monitor keeps *)
(* the SET of model states consistent with what was observed (subset        *)
(* construction); an empty set is the rule failure.                         *)
(***************************************************************************)
EXTENDS Universe, Json, IOUtils, TLC

Rec == ndJsonDeserialize(IOEnv.TRACE)

VARIABLES l,        \* next line
          ctx,      \* [id, begin, active, blockons]
          S         \* set of AsyncCore states consistent with the observations
vars == <<l, ctx, S>>

Core == INSTANCE AsyncCore WITH u <- Rec[ctx.begin].u, p <- Rec[ctx.begin].p, CleanupOnDrop <- TRUE

Line(kind, rest) == PrintT(kind \o "|" \o ToString(ctx.id) \o "|1|" \o rest)
Fail(rule, info) == Line("RULEFAIL", ToString(l) \o "|" \o rule \o "|" \o ToString(info))
Chk(ok, rule, info) == IF ok THEN TRUE ELSE Fail(rule, info)

E(k) == l <= Len(Rec) /\ Rec[l].ev = k /\ l' = l + 1

Key(q) == <<q[1], q[2], q[3]>>
BagSeq(q) == [k \in {Key(q[i]) : i \in DOMAIN q} |-> Cardinality({i \in DOMAIN q : Key(q[i]) = k})]
BagReq(st) == [k \in {r.key : r \in st.reqs} |-> Cardinality({r \in st.reqs : r.key = k})]

Init == l = 1 /\ ctx = [id |-> -1, begin |-> 0, active |-> FALSE, blockons |-> 0] /\ S = {}

\* (runs in which the provider answers a request in two stages - modes "fifo2", "lifo2",
\* "rand2" of the cancel plans - are not followed: AsyncCore has one completion per request)
Begin == /\ E("begin")
         /\ ctx' = [id |-> Rec[l].id, begin |-> l, active |-> Rec[l].cfg.mode \in {"fifo", "lifo", "rand", "prefix"} /\ Rec[l].fresh, blockons |-> 0]
         /\ S' = {}
         /\ PrintT("BEGIN|" \o ToString(Rec[l].id) \o "|" \o ToString(Rec[l].k) \o "|" \o Rec[l].profile)

\* the first block_on of a fresh solve is the encode of the root
BlockOn ==
  /\ E("blockon")
  /\ ctx' = [ctx EXCEPT !.blockons = ctx.blockons + 1, !.active = ctx.active /\ ctx.blockons = 0]
  /\ S' = IF ctx.active /\ ctx.blockons = 0 THEN {Core!RTQ(Core!S0)} ELSE {}

Quiescent ==
  /\ E("quiescent") /\ UNCHANGED ctx
  /\ IF ctx.active /\ S # {}
     THEN LET ok == {st \in S : BagSeq(Rec[l].pending) = BagReq(st)} IN
          /\ Chk(ok # {}, "C11_PendingMismatch", <<Rec[l].pending, {{r.key : r \in st.reqs} : st \in S}>>)
          /\ Chk(\A st \in S : Core!MaxIssued(st) /\ Core!NoDeadlock(st), "C11_ModelNotMaximal", 0)
          /\ Line("COVER", "pending" \o (IF Len(Rec[l].pending) >= 2 THEN ",pending2" ELSE "")
                                    \o (IF Cardinality(S) >= 2 THEN ",ambiguous" ELSE ""))
          /\ S' = IF ok # {} THEN ok ELSE {}
     ELSE S' = S

Complete ==
  /\ E("complete") /\ UNCHANGED ctx
  /\ IF ctx.active /\ S # {}
     THEN LET key == <<Rec[l].kind, Rec[l].arg, Rec[l].inv>>
              nxt == UNION {{Core!RTQ(Core!Complete(st, r)) : r \in {q \in st.reqs : q.key = key}} : st \in S}
          IN /\ Chk(nxt # {}, "C10_CompletedUnknownRequest", key)
             /\ S' = nxt
     ELSE S' = S

\* the encode returned: the model must have finished too, with the order-independent result
BlockDone ==
  /\ E("blockdone")
  /\ ctx' = [ctx EXCEPT !.active = FALSE]
  /\ (IF ctx.active /\ S # {}
      THEN /\ Chk(\E st \in S : Core!Finished(st), "C10_EncodeNotFinished", Cardinality(S))
           /\ Chk(\A st \in S : Core!Finished(st) => Core!ResultIndependent(st) /\ Core!NoDuplicateCall(st),
                  "C10_ResultDependsOnOrder", 0)
           /\ Line("COVER", "encode_followed")
      ELSE TRUE)
  /\ S' = {}

\* a cancelled or failed run simply ends the monitored phase
Other ==
  /\ l <= Len(Rec)
  /\ Rec[l].ev \notin {"begin", "blockon", "quiescent", "complete", "blockdone"}
  /\ l' = l + 1
  /\ ctx' = IF Rec[l].ev = "poll" /\ Rec[l].fired THEN [ctx EXCEPT !.active = FALSE] ELSE ctx
  /\ S' = IF Rec[l].ev = "poll" /\ Rec[l].fired THEN {} ELSE S

Next == Begin \/ BlockOn \/ Quiescent \/ Complete \/ BlockDone \/ Other
Spec == Init /\ [][Next]_vars

Accepted ==
  IF TLCGet("stats").diameter - 1 = Len(Rec) THEN TRUE
  ELSE PrintT("NOTCONSUMED|" \o ToString(TLCGet("stats").diameter) \o "|" \o ToString(Len(Rec))) /\ FALSE
=============================================================================
