--------------------------- MODULE Trace_Snapshot ---------------------------
(* Judges the answers of a SnapshotProvider (recorded by `vh snap`) against
   Snapshot.tla.  Same report-and-continue scheme as Trace_Solve. *)
EXTENDS Snapshot, Json, IOUtils, TLC

Rec == ndJsonDeserialize(IOEnv.TRACE)

VARIABLES l, ctx      \* ctx = [id, begin]
vars == <<l, ctx>>

u == Rec[ctx.begin].u
seeds == Rec[ctx.begin].seeds
Cap == Capture(u, seeds)

Line(kind, id, rest) == PrintT(kind \o "|" \o ToString(id) \o "|1|" \o rest)
Fail(rule, info) == Line("RULEFAIL", ctx.id, ToString(l) \o "|" \o rule \o "|" \o ToString(info))
Chk(ok, rule, info) == IF ok THEN TRUE ELSE Fail(rule, info)

E(k) == l <= Len(Rec) /\ Rec[l].ev = k /\ l' = l + 1

Init == l = 1 /\ ctx = [id |-> -1, begin |-> 0]

Begin == /\ E("begin")
         /\ ctx' = [id |-> Rec[l].id, begin |-> l]
         /\ Line("BEGIN", Rec[l].id, Rec[l].profile)

\* everything in the closure is captured (a copy that lacks something reachable from the
\* seeds cannot answer every solve over them); capturing MORE than the closure is harmless
\* and only counted (cover tag `captured_more`)
Captured ==
  /\ E("captured") /\ UNCHANGED ctx
  /\ LET r == Rec[l] IN
     /\ Chk(Cap.names \subseteq Range(r.names), "C16_CapturedNames", <<Range(r.names), Cap.names>>)
     /\ Chk(Cap.vs \subseteq Range(r.vs), "C16_CapturedVersionSets", <<Range(r.vs), Cap.vs>>)
     /\ Chk(Cap.solv \subseteq Range(r.solv), "C16_CapturedSolvables", <<Range(r.solv), Cap.solv>>)
     /\ Line("COVER", ctx.id, "captured" \o (IF Cardinality(Cap.vs) >= 3 THEN ",vs3" ELSE "")
                                \o (IF Range(r.names) # Cap.names \/ Range(r.vs) # Cap.vs \/ Range(r.solv) # Cap.solv
                                    THEN ",captured_more" ELSE "")
                                \o (IF r.unions > 0 THEN ",unions" ELSE ""))

QCands ==
  /\ E("q_cands") /\ UNCHANGED ctx
  /\ LET r == Rec[l] IN
     /\ Chk(r.cands = SnapCands(u, r.n), "C16_Candidates", <<r.phase, r.n, r.cands>>)
     /\ Chk(Range(r.excluded) = Range(SnapExcluded(u, r.n)), "C16_Excluded", <<r.phase, r.n, r.excluded>>)
     /\ Chk(r.order = SnapOrder(u, r.n), "C16_PreferenceOrder", <<r.phase, r.n, r.order, SnapOrder(u, r.n)>>)
     /\ Chk(~r.favored /\ ~r.locked, "C16_FavoredLocked", r.n)

QMatch ==
  /\ E("q_match") /\ UNCHANGED ctx
  /\ LET r == Rec[l] IN
     /\ Chk(r.name = u.vs[r.v].name, "C16_VersionSetName", <<r.phase, r.v, r.name>>)
     /\ Chk(r.match = SnapMatch(u, r.v), "C16_Matching", <<r.phase, r.v, r.match, SnapMatch(u, r.v)>>)
     /\ Chk(r.non = SnapNonMatch(u, r.v), "C16_NonMatching", <<r.phase, r.v, r.non>>)

QDeps ==
  /\ E("q_deps") /\ UNCHANGED ctx
  /\ LET r == Rec[l] d == SnapDeps(u, r.s) IN
     /\ Chk(r.name = NameOf(u, r.s), "C16_SolvableName", <<r.phase, r.s>>)
     /\ Chk(r.known = d.known /\ r.cons = d.cons, "C16_Dependencies", <<r.phase, r.s>>)
     \* a union is met by a candidate of any member, tried in the listed order
     /\ Chk(r.reqs = d.reqs, "C16_RequirementOrder", <<r.phase, r.s, r.reqs, d.reqs>>)

\* an added version set gets an id that no captured or earlier added one has,
\* and answers for the package it was added for
AddReq ==
  /\ E("addreq") /\ UNCHANGED ctx
  /\ LET r == Rec[l] IN
     /\ Chk(r.raw \notin Range(r.captured_raw), "C16_AddedIdAliasesCaptured", <<r.phase, r.raw, r.captured_raw>>)
     /\ Chk(r.raw \notin Range(r.prev), "C16_AddedIdNotFresh", <<r.phase, r.raw, r.prev>>)
     /\ Chk(r.ans_ok /\ r.ans_name = r.n /\ Range(r.ans_match) = Range(Cands(u, r.n)),
            "C16_AddedAnswer", <<r.phase, r.n, r.ans_ok, r.ans_name, r.ans_match>>)
     /\ Line("COVER", ctx.id, "added")

\* ... and keeps answering for it after further additions and after the provider was
\* configured (with_timeout)
AddCheck ==
  /\ E("addcheck") /\ UNCHANGED ctx
  /\ LET r == Rec[l] IN
     Chk(r.ans_ok /\ r.ans_name = r.n /\ Range(r.ans_match) = Range(Cands(u, r.n)),
         "C16_AddedAnswerChanged", <<r.phase, r.n, r.raw, r.ans_ok, r.ans_name, r.ans_match>>)

QPanic ==
  /\ E("q_panic") /\ UNCHANGED ctx
  /\ Fail("C16_Panic", <<Rec[l].phase, Rec[l].what, Rec[l].id>>)

End == E("end") /\ UNCHANGED ctx

Next == Begin \/ Captured \/ QCands \/ QMatch \/ QDeps \/ AddReq \/ AddCheck \/ QPanic \/ End
Spec == Init /\ [][Next]_vars

Accepted ==
  IF TLCGet("stats").diameter - 1 = Len(Rec) THEN TRUE
  ELSE PrintT("NOTCONSUMED|" \o ToString(TLCGet("stats").diameter) \o "|" \o ToString(Len(Rec))) /\ FALSE
=============================================================================
