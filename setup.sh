#!/bin/sh
# Builds the framework from files on disk only (offline).
set -e
cd "$(dirname "$0")"
export CARGO_NET_OFFLINE=true
(cd harness && cargo build --offline --release --quiet && cargo build --offline --profile dbg --quiet)
for m in spec/*.tla; do
  java -cp /opt/veriftools/tla/tla2tools.jar:/opt/veriftools/tla/CommunityModules-deps.jar tla2sany.SANY "$m" > /tmp/sany.$$ 2>&1 || { cat /tmp/sany.$$; rm -f /tmp/sany.$$; exit 1; }
done
rm -f /tmp/sany.$$
echo setup ok
