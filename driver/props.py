"""Registry: property id -> check function."""
import check
from check import TRACE_PLANS, trace_check


def _trace(prop, tier, seed, t0):
    return trace_check(prop, tier, seed, TRACE_PLANS[prop], t0)


CHECKS = {p: _trace for p in TRACE_PLANS}
