//! Seeded universe / problem generators (DESIGN §5.2).

use crate::model::*;
use crate::rng::Rng;

#[derive(Clone, Debug)]
pub enum HintGen {
    None,
    All,
    /// per package: none / all / some with equal probability
    Random,
}

#[derive(Clone, Debug)]
pub struct GenParams {
    pub pkgs: (u32, u32),
    pub cands: (u32, u32),
    /// probability that a version set keeps a given candidate
    pub p_keep: f64,
    /// probability that an empty match set is kept empty
    pub p_allow_empty: f64,
    /// requirements per solvable
    pub reqs: (u32, u32),
    pub p_union: f64,
    /// probability of a constrains entry per solvable (up to 2)
    pub p_cons: f64,
    pub acyclic: bool,
    pub p_self: f64,
    pub p_missing: f64,
    pub p_unknown: f64,
    pub p_lock: f64,
    pub p_excl: f64,
    pub p_excl_unlisted: f64,
    pub p_favored: f64,
    pub hint: HintGen,
    pub root_reqs: (u32, u32),
    pub root_full: bool,
    pub p_root_union: f64,
    pub p_root_cons: f64,
    pub soft: (u32, u32),
    /// probability that version sets contain the top-ranked candidate (clean profile)
    pub p_top: f64,
    /// nothing mentions the last package; soft requirements are drawn from it
    pub lone_last: bool,
    /// probability that a further member of a union is a version set of the SAME
    /// package as the first member (overlapping alternatives)
    pub p_union_same: f64,
    /// probability that a requirement gets an additional alternative that matches nothing,
    /// placed first or in the middle (a union with an empty member that is not the last)
    pub p_union_empty: f64,
    /// probability that the second constrains entry of a solvable is about the same package
    /// as the first (two different version sets of one package)
    pub p_cons_same: f64,
}

impl GenParams {
    pub fn base() -> Self {
        GenParams {
            pkgs: (2, 6),
            cands: (1, 4),
            p_keep: 0.65,
            p_allow_empty: 0.1,
            reqs: (0, 2),
            p_union: 0.15,
            p_cons: 0.2,
            acyclic: false,
            p_self: 0.03,
            p_missing: 0.04,
            p_unknown: 0.04,
            p_lock: 0.06,
            p_excl: 0.05,
            p_excl_unlisted: 0.3,
            p_favored: 0.2,
            hint: HintGen::None,
            root_reqs: (1, 2),
            root_full: false,
            p_root_union: 0.15,
            p_root_cons: 0.2,
            soft: (0, 0),
            p_top: 0.0,
            lone_last: false,
            p_union_same: 0.15,
            p_union_empty: 0.0,
            p_cons_same: 0.0,
        }
    }

    pub fn profile(name: &str) -> Self {
        let b = Self::base();
        match name {
            "base" => b,
            "conflict" => GenParams {
                pkgs: (6, 10),
                cands: (2, 4),
                p_keep: 0.4,
                p_allow_empty: 0.0,
                reqs: (0, 3),
                p_union: 0.05,
                p_cons: 0.5,
                p_missing: 0.0,
                p_unknown: 0.02,
                p_lock: 0.03,
                p_excl: 0.03,
                p_favored: 0.1,
                root_reqs: (2, 4),
                root_full: true,
                p_root_union: 0.0,
                p_root_cons: 0.1,
                ..b
            },
            "bigconflict" => GenParams {
                // long conflict analyses: several learnt clauses take part in the final
                // level-1 conflict
                pkgs: (8, 12),
                cands: (2, 4),
                p_keep: 0.45,
                p_allow_empty: 0.0,
                reqs: (1, 3),
                p_union: 0.05,
                p_cons: 0.5,
                p_missing: 0.0,
                p_unknown: 0.0,
                p_lock: 0.0,
                p_excl: 0.0,
                p_favored: 0.1,
                root_reqs: (3, 5),
                root_full: true,
                p_root_union: 0.0,
                p_root_cons: 0.1,
                ..b
            },
            "midconflict" => GenParams {
                pkgs: (5, 7),
                cands: (2, 3),
                p_keep: 0.4,
                p_allow_empty: 0.0,
                reqs: (0, 3),
                p_union: 0.05,
                p_cons: 0.5,
                p_missing: 0.0,
                p_unknown: 0.02,
                p_lock: 0.03,
                p_excl: 0.03,
                root_reqs: (2, 3),
                root_full: true,
                p_root_union: 0.0,
                p_root_cons: 0.1,
                ..b
            },
            "clean" => GenParams {
                pkgs: (2, 7),
                cands: (1, 4),
                p_keep: 0.5,
                p_allow_empty: 0.0,
                reqs: (0, 2),
                p_union: 0.2,
                p_cons: 0.1,
                p_missing: 0.0,
                p_unknown: 0.0,
                p_lock: 0.0,
                p_excl: 0.0,
                p_favored: 0.35,
                p_root_cons: 0.1,
                p_top: 0.8,
                ..b
            },
            "direct" => GenParams {
                pkgs: (4, 8),
                cands: (2, 4),
                p_keep: 0.45,
                p_allow_empty: 0.0,
                reqs: (0, 3),
                p_union: 0.1,
                p_cons: 0.45,
                p_missing: 0.0,
                p_root_union: 0.0,
                root_reqs: (1, 3),
                root_full: true,
                ..b
            },
            "direct2" => GenParams {
                // direct requirements with forced (single-candidate) packages next to
                // multi-candidate ones, and constraints from transitive dependencies back
                // onto the directly required packages
                pkgs: (4, 7),
                cands: (1, 4),
                p_keep: 0.5,
                p_allow_empty: 0.0,
                reqs: (1, 3),
                p_union: 0.0,
                p_cons: 0.55,
                p_missing: 0.0,
                p_unknown: 0.0,
                p_lock: 0.0,
                p_excl: 0.0,
                p_favored: 0.0,
                p_root_union: 0.0,
                p_root_cons: 0.0,
                root_reqs: (2, 4),
                root_full: true,
                ..b
            },
            "unionoverlap" => GenParams {
                // unions whose members are overlapping version sets of one package
                pkgs: (3, 6),
                cands: (2, 4),
                p_union: 0.6,
                p_root_union: 0.7,
                p_union_same: 0.8,
                p_keep: 0.6,
                p_cons: 0.35,
                p_allow_empty: 0.0,
                ..b
            },
            "locks" => GenParams {
                p_lock: 0.4,
                p_excl: 0.1,
                ..b
            },
            "excl" => GenParams {
                p_excl: 0.3,
                p_excl_unlisted: 0.4,
                p_unknown: 0.1,
                ..b
            },
            "unknown" => GenParams {
                p_unknown: 0.3,
                ..b
            },
            "hints" => GenParams {
                hint: HintGen::Random,
                p_excl: 0.15,
                p_lock: 0.15,
                p_root_cons: 0.4,
                ..b
            },
            "hintsall" => GenParams {
                hint: HintGen::All,
                ..b
            },
            "soft" => GenParams {
                soft: (1, 3),
                p_excl: 0.12,
                p_lock: 0.12,
                p_unknown: 0.1,
                ..b
            },
            "softhints" => GenParams {
                soft: (1, 3),
                hint: HintGen::Random,
                p_excl: 0.12,
                p_lock: 0.12,
                ..b
            },
            "hintcons" => GenParams {
                // partial availability hints with many constrains entries and several
                // direct requirements: clauses of hinted candidates are encoded (and
                // propagate) before the requirements that mention their victims
                pkgs: (4, 6),
                cands: (2, 4),
                p_keep: 0.6,
                p_allow_empty: 0.0,
                reqs: (0, 2),
                p_union: 0.05,
                p_cons: 0.6,
                p_missing: 0.0,
                p_unknown: 0.0,
                p_lock: 0.0,
                p_excl: 0.0,
                hint: HintGen::Random,
                root_reqs: (2, 4),
                root_full: true,
                p_root_union: 0.0,
                p_root_cons: 0.0,
                ..b
            },
            "softeager" => GenParams {
                // soft requirements on top of a conflict-free hard problem, with every
                // candidate's dependencies hinted as available (eager encoding while the
                // soft requirement is installed) and many constrains entries on the
                // lower-ranked candidates
                pkgs: (3, 6),
                cands: (2, 3),
                soft: (1, 3),
                hint: HintGen::All,
                p_keep: 0.5,
                p_allow_empty: 0.0,
                p_cons: 0.5,
                p_missing: 0.0,
                p_unknown: 0.0,
                p_lock: 0.0,
                p_excl: 0.0,
                p_top: 0.7,
                ..b
            },
            "cyclic" => GenParams {
                pkgs: (2, 5),
                cands: (1, 3),
                reqs: (0, 2),
                p_self: 0.1,
                p_cons: 0.3,
                p_keep: 0.7,
                ..b
            },
            "selfcons" => GenParams {
                // solvables that constrain / require their own package
                pkgs: (2, 4),
                cands: (2, 3),
                p_self: 0.3,
                p_cons: 0.5,
                hint: HintGen::Random,
                ..b
            },
            "softlone" => GenParams {
                // soft requirements on packages that nothing else mentions
                pkgs: (3, 6),
                reqs: (0, 1),
                root_reqs: (1, 1),
                soft: (1, 3),
                p_excl: 0.2,
                p_lock: 0.15,
                p_unknown: 0.1,
                p_cons: 0.4,
                ..b
            },
            "hintexcl" => GenParams {
                hint: HintGen::Random,
                p_excl: 0.3,
                p_lock: 0.25,
                p_root_cons: 0.6,
                p_cons: 0.4,
                soft: (0, 2),
                ..b
            },
            "softconflict" => GenParams {
                // soft requirements whose installation needs search with conflicts
                pkgs: (4, 7),
                cands: (2, 3),
                p_keep: 0.6,
                p_allow_empty: 0.0,
                reqs: (0, 2),
                p_union: 0.05,
                p_cons: 0.45,
                p_missing: 0.0,
                p_unknown: 0.0,
                p_lock: 0.0,
                p_excl: 0.0,
                root_reqs: (1, 1),
                root_full: true,
                p_root_cons: 0.0,
                soft: (1, 3),
                lone_last: true,
                ..b
            },
            "snap" => GenParams {
                // C16: no favored / locked (the snapshot format does not represent them)
                pkgs: (2, 6),
                p_lock: 0.0,
                p_favored: 0.0,
                p_union: 0.3,
                // a root union cannot be seeded into a snapshot (seeds are names, version
                // sets and solvables), so the problems use single version sets
                p_root_union: 0.0,
                p_excl: 0.12,
                p_unknown: 0.08,
                ..b
            },
            "manycands" => GenParams {
                // packages with 18-45 candidates, almost always a favored one, version sets
                // that keep most candidates: sorted candidate lists long enough for
                // size-dependent behaviour of the ordering code (C20, C07)
                pkgs: (2, 3),
                cands: (18, 45),
                p_keep: 0.85,
                p_allow_empty: 0.0,
                reqs: (0, 1),
                p_union: 0.2,
                p_cons: 0.1,
                p_favored: 0.9,
                p_lock: 0.0,
                p_missing: 0.0,
                root_reqs: (1, 2),
                ..b
            },
            "multilock" => GenParams {
                // several locked / excluded packages clashing with requirements at once:
                // problems that are unsolvable for more than one independent reason, where
                // the order in which clauses were added decides what is reported (C06)
                pkgs: (4, 7),
                cands: (2, 3),
                p_lock: 0.6,
                p_excl: 0.25,
                p_keep: 0.5,
                reqs: (1, 3),
                root_reqs: (2, 4),
                p_root_cons: 0.4,
                p_missing: 0.0,
                ..b
            },
            "selfreq" => GenParams {
                // solvables that require / constrain their own package, under partial hints
                // and with enough conflicts that candidates are abandoned and revisited
                pkgs: (3, 5),
                cands: (2, 3),
                p_self: 0.35,
                p_cons: 0.4,
                p_keep: 0.6,
                reqs: (1, 2),
                root_reqs: (1, 3),
                root_full: true,
                hint: HintGen::Random,
                ..b
            },
            "large" => GenParams {
                // 25-40 packages: variable, clause and name ids cross the 128 / 256 boundaries
                // of the chunked tables inside the solver (watch map, activity table, arenas)
                pkgs: (25, 40),
                cands: (2, 5),
                p_keep: 0.72,
                reqs: (1, 3),
                p_union: 0.15,
                p_cons: 0.15,
                root_reqs: (2, 4),
                p_missing: 0.0,
                p_unknown: 0.01,
                p_lock: 0.03,
                p_excl: 0.03,
                ..b
            },
            "unionempty" => GenParams {
                // requirements with an alternative that matches nothing, in front of or between
                // the alternatives that do; otherwise like "clean" (mostly conflict-free), with
                // several direct requirements on one package's candidates
                pkgs: (2, 6),
                cands: (2, 4),
                p_keep: 0.5,
                p_allow_empty: 0.0,
                reqs: (0, 2),
                p_union: 0.3,
                p_root_union: 0.3,
                p_union_empty: 0.5,
                p_cons: 0.1,
                p_missing: 0.0,
                p_unknown: 0.0,
                p_lock: 0.0,
                p_excl: 0.0,
                p_favored: 0.3,
                p_root_cons: 0.1,
                p_top: 0.8,
                root_reqs: (1, 3),
                ..b
            },
            "multicons" => GenParams {
                // solvables with two constrains entries on ONE package, several direct
                // requirements, few candidates: unsolvable problems whose explanation lists both
                // constraints of one solvable (C06: their order must not depend on a hash seed)
                pkgs: (3, 5),
                cands: (2, 3),
                p_keep: 0.45,
                p_allow_empty: 0.0,
                reqs: (0, 2),
                p_cons: 0.9,
                p_cons_same: 0.9,
                p_missing: 0.0,
                p_unknown: 0.0,
                p_lock: 0.0,
                p_excl: 0.0,
                root_reqs: (2, 4),
                root_full: true,
                p_root_union: 0.0,
                ..b
            },
            "tiny" => GenParams {
                pkgs: (2, 3),
                cands: (1, 2),
                reqs: (0, 2),
                root_reqs: (1, 2),
                p_union: 0.25,
                p_root_union: 0.25,
                p_cons: 0.3,
                ..b
            },
            "small" => GenParams {
                pkgs: (2, 4),
                cands: (1, 3),
                ..b
            },
            "fan" => GenParams {
                // wide fan-out for C11
                pkgs: (4, 8),
                cands: (1, 3),
                reqs: (1, 4),
                p_union: 0.3,
                root_reqs: (2, 6),
                p_missing: 0.0,
                p_keep: 0.85,
                p_cons: 0.1,
                ..b
            },
            "tune" => {
                // generator tuning only (driver/scan.py): parameters from VH_TUNE =
                // "pkgs_lo,pkgs_hi,cands_lo,cands_hi,p_keep,reqs_lo,reqs_hi,p_cons,root_lo,root_hi"
                let t: Vec<f64> = std::env::var("VH_TUNE")
                    .expect("VH_TUNE")
                    .split(',')
                    .map(|x| x.parse().unwrap())
                    .collect();
                GenParams {
                    pkgs: (t[0] as u32, t[1] as u32),
                    cands: (t[2] as u32, t[3] as u32),
                    p_keep: t[4],
                    reqs: (t[5] as u32, t[6] as u32),
                    p_cons: t[7],
                    root_reqs: (t[8] as u32, t[9] as u32),
                    ..Self::profile("bigconflict")
                }
            }
            _ => panic!("unknown profile {name}"),
        }
    }
}

pub fn gen_universe(rng: &mut Rng, g: &GenParams) -> (Universe, Problem) {
    let n = rng.range(g.pkgs.0, g.pkgs.1) as usize;
    let mut u = Universe::default();
    // packages and solvables
    for i in 1..=n {
        let mut p = Pkg {
            exists: !(i > 1 && rng.chance(g.p_missing)),
            ..Default::default()
        };
        if p.exists {
            let k = rng.range(g.cands.0, g.cands.1);
            for _ in 0..k {
                u.solv.push(Solv {
                    name: i as u32,
                    known: !rng.chance(g.p_unknown),
                    reqs: vec![],
                    cons: vec![],
                });
                let s = u.solv.len() as u32;
                let excl = rng.chance(g.p_excl);
                if excl {
                    p.excluded.push(s);
                }
                if !(excl && rng.chance(g.p_excl_unlisted)) {
                    p.cands.push(s);
                }
            }
            // candidate list order is not the preference order
            rng.shuffle(&mut p.cands);
            p.rank = p.cands.clone();
            rng.shuffle(&mut p.rank);
            if !p.cands.is_empty() {
                if rng.chance(g.p_lock) {
                    p.locked = *rng.pick(&p.cands);
                }
                if rng.chance(g.p_favored) {
                    p.favored = *rng.pick(&p.cands);
                }
            }
            p.hint = match g.hint {
                HintGen::None => Hint::default(),
                HintGen::All => Hint {
                    mode: "all".into(),
                    list: vec![],
                },
                HintGen::Random => match rng.below(3) {
                    0 => Hint::default(),
                    1 => Hint {
                        mode: "all".into(),
                        list: vec![],
                    },
                    _ => {
                        let mut l: Vec<u32> =
                            p.cands.iter().copied().filter(|_| rng.chance(0.5)).collect();
                        l.sort();
                        Hint {
                            mode: "some".into(),
                            list: l,
                        }
                    }
                },
            };
        }
        u.pkg.push(p);
    }

    let mut vs_intern: Vec<(u32, Vec<u32>)> = Vec::new();
    // set while a version set that matches nothing is wanted
    let force_empty = std::cell::Cell::new(false);
    let mut mk_vs = |rng: &mut Rng, u: &Universe, name: u32, full: bool| -> u32 {
        if force_empty.get() {
            return match vs_intern.iter().position(|(n2, m2)| *n2 == name && m2.is_empty()) {
                Some(i) => i as u32 + 1,
                None => {
                    vs_intern.push((name, vec![]));
                    vs_intern.len() as u32
                }
            };
        }
        let p = &u.pkg[name as usize - 1];
        let mut m: Vec<u32> = if full {
            p.cands.clone()
        } else {
            p.cands.iter().copied().filter(|_| rng.chance(g.p_keep)).collect()
        };
        if !full && g.p_top > 0.0 && !p.rank.is_empty() {
            let top = if p.favored != 0 { p.favored } else { p.rank[0] };
            if rng.chance(g.p_top) && !m.contains(&top) {
                m.push(top);
            }
        }
        if m.is_empty() && !p.cands.is_empty() && !rng.chance(g.p_allow_empty) {
            m.push(*rng.pick(&p.cands));
        }
        m.sort();
        match vs_intern.iter().position(|(n2, m2)| *n2 == name && *m2 == m) {
            Some(i) => i as u32 + 1,
            None => {
                vs_intern.push((name, m));
                vs_intern.len() as u32
            }
        }
    };

    let pick_target = |rng: &mut Rng, i: usize| -> Option<u32> {
        if g.lone_last {
            // the last package is never a target
            if n <= 2 {
                return None;
            }
            let mut j = rng.range(1, n as u32 - 1);
            if j == i as u32 {
                j = if j == 1 { 2 } else { j - 1 };
            }
            if j as usize >= n {
                return None;
            }
            return Some(j);
        }
        if g.acyclic {
            if i >= n {
                None
            } else {
                Some(rng.range(i as u32 + 1, n as u32))
            }
        } else if rng.chance(g.p_self) {
            Some(i as u32)
        } else if n == 1 {
            None
        } else {
            let mut j = rng.range(1, n as u32 - 1);
            if j >= i as u32 {
                j += 1;
            }
            Some(j)
        }
    };

    for si in 0..u.solv.len() {
        let i = u.solv[si].name as usize;
        let nreq = rng.range(g.reqs.0, g.reqs.1);
        let mut reqs: Vec<Vec<u32>> = Vec::new();
        for _ in 0..nreq {
            let Some(j) = pick_target(rng, i) else { continue };
            let mut r = vec![mk_vs(rng, &u, j, false)];
            if rng.chance(g.p_union) {
                let extra = rng.range(1, 2);
                for _ in 0..extra {
                    let j2 = if rng.chance(g.p_union_same) { Some(j) } else { pick_target(rng, i) };
                    if let Some(j2) = j2 {
                        let v = mk_vs(rng, &u, j2, false);
                        if !r.contains(&v) {
                            r.push(v);
                        }
                    }
                }
            }
            if rng.chance(g.p_union_empty) {
                // an alternative without candidates, in front of (or between) the others
                if let Some(je) = pick_target(rng, i) {
                    force_empty.set(true);
                    let ev = mk_vs(rng, &u, je, false);
                    force_empty.set(false);
                    let pos = rng.range(0, r.len() as u32 - 1) as usize;
                    if !r.contains(&ev) {
                        r.insert(pos, ev);
                    }
                }
            }
            if !reqs.contains(&r) {
                reqs.push(r);
            }
        }
        let mut cons = Vec::new();
        let mut first_cons_target: Option<u32> = None;
        for _ in 0..2 {
            if rng.chance(g.p_cons) {
                let tgt = match first_cons_target {
                    Some(j0) if rng.chance(g.p_cons_same) => Some(j0),
                    _ => pick_target(rng, i),
                };
                if let Some(j) = tgt {
                    first_cons_target.get_or_insert(j);
                    let v = mk_vs(rng, &u, j, false);
                    if !cons.contains(&v) {
                        cons.push(v);
                    }
                }
            }
        }
        u.solv[si].reqs = reqs;
        u.solv[si].cons = cons;
    }

    // root problem
    let mut p = Problem::default();
    let nroot = rng.range(g.root_reqs.0, g.root_reqs.1);
    let mut names: Vec<u32> = (1..=n as u32).collect();
    if g.lone_last && n > 1 {
        names.pop();
    }
    rng.shuffle(&mut names);
    for k in 0..(nroot as usize).min(names.len()) {
        let j = names[k];
        let mut r = vec![mk_vs(rng, &u, j, g.root_full)];
        if rng.chance(g.p_root_union) {
            let j2 = if rng.chance(g.p_union_same) { j } else { *rng.pick(&names) };
            let v = mk_vs(rng, &u, j2, g.root_full);
            if !r.contains(&v) {
                r.push(v);
            }
        }
        if rng.chance(g.p_union_empty) {
            force_empty.set(true);
            let je = *rng.pick(&names);
            let ev = mk_vs(rng, &u, je, false);
            force_empty.set(false);
            let pos = rng.range(0, r.len() as u32 - 1) as usize;
            if !r.contains(&ev) {
                r.insert(pos, ev);
            }
        }
        if !p.reqs.contains(&r) {
            p.reqs.push(r);
        }
    }
    if rng.chance(g.p_root_cons) {
        let j = *rng.pick(&names);
        p.cons.push(mk_vs(rng, &u, j, false));
    }
    // soft requirements
    let nsoft = rng.range(g.soft.0, g.soft.1);
    if !u.solv.is_empty() {
        for _ in 0..nsoft {
            let mut s = rng.range(1, u.solv.len() as u32);
            if g.lone_last && rng.chance(0.7) {
                let last: Vec<u32> = (1..=u.solv.len() as u32)
                    .filter(|&x| u.solv[x as usize - 1].name == n as u32)
                    .collect();
                if !last.is_empty() {
                    s = *rng.pick(&last);
                }
            }
            if !p.soft.contains(&s) {
                p.soft.push(s);
            }
        }
    }
    drop(mk_vs);
    u.vs = vs_intern
        .into_iter()
        .map(|(name, matching)| Vs { name, matching })
        .collect();
    (u, p)
}

/// C08 template: forced (single-candidate) direct requirements whose transitive
/// dependencies have candidates that are uninstallable (found only through a
/// conflict), candidates that constrain another direct requirement away from its
/// best candidate, and free candidates.  A correct solver keeps deciding direct
/// requirements first, also after learning and backjumping to the first level.
pub fn gen_direct_template(rng: &mut Rng) -> (Universe, Problem) {
    let mut u = Universe::default();
    let mut vs: Vec<Vs> = Vec::new();
    let nf = rng.range(1, 2) as usize;
    let na = rng.range(1, 2) as usize;
    let nt = rng.range(1, 2) as usize;
    // package index layout: F.., A.., T.., V..
    let mut new_pkg = |u: &mut Universe, k: u32, shuffle_rank: bool, rng: &mut Rng| -> u32 {
        let name = u.pkg.len() as u32 + 1;
        let mut cands = Vec::new();
        for _ in 0..k {
            u.solv.push(Solv { name, known: true, reqs: vec![], cons: vec![] });
            cands.push(u.solv.len() as u32);
        }
        let mut rank = cands.clone();
        if shuffle_rank {
            rng.shuffle(&mut rank);
        }
        let mut listed = cands.clone();
        rng.shuffle(&mut listed);
        u.pkg.push(Pkg { exists: true, cands: listed, rank, ..Default::default() });
        name
    };
    let f: Vec<u32> = (0..nf).map(|_| new_pkg(&mut u, 1, false, rng)).collect();
    let a: Vec<u32> = (0..na).map(|_| { let k = rng.range(2, 4); new_pkg(&mut u, k, true, rng) }).collect();
    let t: Vec<u32> = (0..nt).map(|_| { let k = rng.range(2, 4); new_pkg(&mut u, k, true, rng) }).collect();
    let mut mk_vs = |name: u32, mut m: Vec<u32>| -> u32 {
        m.sort();
        if let Some(i) = vs.iter().position(|x| x.name == name && x.matching == m) {
            return i as u32 + 1;
        }
        vs.push(Vs { name, matching: m });
        vs.len() as u32
    };
    let full = |u: &Universe, n: u32| -> Vec<u32> { u.pkg[n as usize - 1].cands.clone() };
    // forced solvables require one or two transitive packages
    for &fp in &f {
        let s = u.pkg[fp as usize - 1].cands[0];
        let mut ts = t.clone();
        rng.shuffle(&mut ts);
        let k = rng.range(1, ts.len() as u32) as usize;
        for &tp in ts.iter().take(k) {
            let v = mk_vs(tp, full(&u, tp));
            u.solv[s as usize - 1].reqs.push(vec![v]);
        }
    }
    // transitive candidates: poisoned / constraining / free
    for &tp in &t {
        let cands = full(&u, tp);
        for &c in &cands {
            match rng.below(3) {
                0 => {
                    // poisoned: requires a package whose only candidate excludes c again
                    let vp = new_pkg(&mut u, 1, false, rng);
                    let vsolv = u.pkg[vp as usize - 1].cands[0];
                    let others: Vec<u32> = cands.iter().copied().filter(|&x| x != c).collect();
                    let cv = mk_vs(tp, others);
                    u.solv[vsolv as usize - 1].cons.push(cv);
                    let rv = mk_vs(vp, vec![vsolv]);
                    u.solv[c as usize - 1].reqs.push(vec![rv]);
                }
                1 => {
                    // constrains a direct package away from its best candidate
                    let ap = *rng.pick(&a);
                    let best = u.pkg[ap as usize - 1].rank[0];
                    let keep: Vec<u32> = full(&u, ap).into_iter().filter(|&x| x != best && rng.chance(0.7)).collect();
                    let keep = if keep.is_empty() { full(&u, ap).into_iter().filter(|&x| x != best).take(1).collect() } else { keep };
                    let cv = mk_vs(ap, keep);
                    u.solv[c as usize - 1].cons.push(cv);
                }
                _ => {}
            }
        }
    }
    // the root requires every forced and every choice package
    let mut p = Problem::default();
    let mut roots: Vec<u32> = f.iter().chain(a.iter()).copied().collect();
    rng.shuffle(&mut roots);
    for n in roots {
        let v = mk_vs(n, full(&u, n));
        p.reqs.push(vec![v]);
    }
    u.vs = vs;
    (u, p)
}

/// A second problem over the same universe (for histories, C13): new root
/// requirements over the universe's existing version sets.
pub fn gen_problem(rng: &mut Rng, u: &Universe, soft: (u32, u32)) -> Problem {
    let mut p = Problem::default();
    if u.vs.is_empty() {
        return p;
    }
    let k = rng.range(1, 3);
    for _ in 0..k {
        let v = rng.range(1, u.vs.len() as u32);
        let r = vec![v];
        if !p.reqs.contains(&r) {
            p.reqs.push(r);
        }
    }
    if rng.chance(0.25) {
        p.cons.push(rng.range(1, u.vs.len() as u32));
    }
    let nsoft = rng.range(soft.0, soft.1);
    for _ in 0..nsoft {
        if !u.solv.is_empty() {
            let s = rng.range(1, u.solv.len() as u32);
            if !p.soft.contains(&s) {
                p.soft.push(s);
            }
        }
    }
    p
}

/// Metamorphic variants: same meaning, different presentation.
pub fn permute_cands(rng: &mut Rng, u: &Universe) -> Universe {
    let mut v = u.clone();
    for p in v.pkg.iter_mut() {
        rng.shuffle(&mut p.cands);
    }
    v
}

pub fn renumber_ids(rng: &mut Rng, u: &Universe, sparse: bool) -> Universe {
    let mut v = u.clone();
    let mk = |rng: &mut Rng, n: usize| -> Vec<u32> {
        let mut ids: Vec<u32> = if sparse {
            // sparse, beyond one 128-slot chunk, unordered
            let mut x = Vec::new();
            let mut cur = 0u32;
            for _ in 0..n {
                let span = if rng.chance(0.2) { 140 } else { 9 };
                cur += 1 + rng.below(span) as u32;
                x.push(cur - 1);
            }
            x
        } else {
            (0..n as u32).collect()
        };
        rng.shuffle(&mut ids);
        ids
    };
    v.idmap = IdMap {
        solv: mk(rng, u.solv.len()),
        name: mk(rng, u.pkg.len()),
        vs: mk(rng, u.vs.len()),
    };
    v
}

pub fn with_hints(rng: &mut Rng, u: &Universe, mode: &str) -> Universe {
    let mut v = u.clone();
    for p in v.pkg.iter_mut() {
        p.hint = match mode {
            "none" => Hint::default(),
            "all" => Hint {
                mode: "all".into(),
                list: vec![],
            },
            _ => {
                let mut l: Vec<u32> = p.cands.iter().copied().filter(|_| rng.chance(0.5)).collect();
                l.sort();
                Hint {
                    mode: "some".into(),
                    list: l,
                }
            }
        };
    }
    v
}

/// C15, lazy discovery: the candidates of the wide package are revealed group by
/// group along a chain of packages, so that a candidate has already been selected
/// (and may have to be given up again) when further candidates become known; the
/// last link additionally requires the single candidates `want`.
pub fn wide_chain_universe(n: u32, groups: &[Vec<u32>], want: &[u32]) -> (Universe, Problem) {
    let mut u = Universe::default();
    let mut wide = Pkg { exists: true, ..Default::default() };
    for s in 1..=n {
        u.solv.push(Solv { name: 1, known: true, reqs: vec![], cons: vec![] });
        wide.cands.push(s);
        wide.rank.push(s);
    }
    u.pkg.push(wide);
    let k = groups.len();
    // chain packages 2..k+1, one candidate each
    let mut chain_solv = Vec::new();
    for gi in 0..k {
        let name = gi as u32 + 2;
        u.solv.push(Solv { name, known: true, reqs: vec![], cons: vec![] });
        let s = u.solv.len() as u32;
        chain_solv.push(s);
        u.pkg.push(Pkg { exists: true, cands: vec![s], rank: vec![s], ..Default::default() });
    }
    let mut chain_vs = Vec::new();
    for gi in 0..k {
        u.vs.push(Vs { name: gi as u32 + 2, matching: vec![chain_solv[gi]] });
        chain_vs.push(u.vs.len() as u32);
    }
    for gi in 0..k {
        let mut m = groups[gi].clone();
        m.sort();
        m.dedup();
        u.vs.push(Vs { name: 1, matching: m });
        let gv = u.vs.len() as u32;
        let s = chain_solv[gi] as usize - 1;
        u.solv[s].reqs.push(vec![gv]);
        if gi + 1 < k {
            u.solv[s].reqs.push(vec![chain_vs[gi + 1]]);
        } else {
            for &w in want {
                u.vs.push(Vs { name: 1, matching: vec![w] });
                let wv = u.vs.len() as u32;
                u.solv[s].reqs.push(vec![wv]);
            }
        }
    }
    let p = Problem { reqs: vec![vec![chain_vs[0]]], cons: vec![], soft: vec![] };
    (u, p)
}

/// C15, alternatives: a selector package whose candidates (tried in order) each
/// reveal a group of wide candidates directly and require single wide candidates
/// through intermediate packages (shared between the alternatives).  The solver
/// selects a wide candidate under one alternative, discovers more candidates
/// late, conflicts, backtracks to the next alternative.
pub fn wide_alt_universe(n: u32, alts: &[(Vec<u32>, Vec<u32>)], rng: &mut Rng) -> (Universe, Problem) {
    let mut u = Universe::default();
    let mut wide = Pkg { exists: true, ..Default::default() };
    for s in 1..=n {
        u.solv.push(Solv { name: 1, known: true, reqs: vec![], cons: vec![] });
        wide.cands.push(s);
        wide.rank.push(s);
    }
    rng.shuffle(&mut wide.rank);
    u.pkg.push(wide);
    // selector package
    let mut sel = Pkg { exists: true, ..Default::default() };
    for _ in alts {
        u.solv.push(Solv { name: 2, known: true, reqs: vec![], cons: vec![] });
        let s = u.solv.len() as u32;
        sel.cands.push(s);
        sel.rank.push(s);
    }
    let sel_cands = sel.cands.clone();
    u.pkg.push(sel);
    u.vs.push(Vs { name: 2, matching: sel_cands.clone() });
    let root_vs = u.vs.len() as u32;
    let mut inter: std::collections::HashMap<u32, u32> = std::collections::HashMap::new(); // wide cand -> vs of its intermediate package
    for (ai, (group, wants)) in alts.iter().enumerate() {
        let s = sel_cands[ai] as usize - 1;
        if !group.is_empty() {
            let mut m = group.clone();
            m.sort();
            m.dedup();
            u.vs.push(Vs { name: 1, matching: m });
            let gv = u.vs.len() as u32;
            u.solv[s].reqs.push(vec![gv]);
        }
        for &x in wants {
            let v = match inter.get(&x) {
                Some(v) => *v,
                None => {
                    let name = u.pkg.len() as u32 + 1;
                    u.vs.push(Vs { name: 1, matching: vec![x] });
                    let xv = u.vs.len() as u32;
                    u.solv.push(Solv { name, known: true, reqs: vec![vec![xv]], cons: vec![] });
                    let is = u.solv.len() as u32;
                    u.pkg.push(Pkg { exists: true, cands: vec![is], rank: vec![is], ..Default::default() });
                    u.vs.push(Vs { name, matching: vec![is] });
                    let iv = u.vs.len() as u32;
                    inter.insert(x, iv);
                    iv
                }
            };
            if !u.solv[s].reqs.contains(&vec![v]) {
                u.solv[s].reqs.push(vec![v]);
            }
        }
    }
    (u, Problem { reqs: vec![vec![root_vs]], cons: vec![], soft: vec![] })
}

/// C15: one package with n candidates revealed by `groups` (a partition of
/// the candidates into version sets, in discovery order); the root requires
/// candidate sets `want` (each a single-candidate version set).
pub fn wide_universe(n: u32, groups: &[Vec<u32>], want: &[u32]) -> (Universe, Problem) {
    // package 1 = "wide" with candidates 1..n ; package 2.. = one revealing
    // package per group, each with one candidate requiring the group's version set
    let mut u = Universe::default();
    let mut wide = Pkg {
        exists: true,
        ..Default::default()
    };
    for s in 1..=n {
        u.solv.push(Solv {
            name: 1,
            known: true,
            reqs: vec![],
            cons: vec![],
        });
        wide.cands.push(s);
        wide.rank.push(s);
    }
    u.pkg.push(wide);
    let mut p = Problem::default();
    for (gi, grp) in groups.iter().enumerate() {
        let mut m = grp.clone();
        m.sort();
        u.vs.push(Vs {
            name: 1,
            matching: m,
        });
        let vs_id = u.vs.len() as u32;
        let name = gi as u32 + 2;
        u.solv.push(Solv {
            name,
            known: true,
            reqs: vec![vec![vs_id]],
            cons: vec![],
        });
        let s = u.solv.len() as u32;
        u.pkg.push(Pkg {
            exists: true,
            cands: vec![s],
            rank: vec![s],
            ..Default::default()
        });
        u.vs.push(Vs {
            name,
            matching: vec![s],
        });
        p.reqs.push(vec![u.vs.len() as u32]);
    }
    for &w in want {
        u.vs.push(Vs {
            name: 1,
            matching: vec![w],
        });
        p.reqs.push(vec![u.vs.len() as u32]);
    }
    (u, p)
}
