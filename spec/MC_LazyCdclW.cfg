SPECIFICATION Spec
INVARIANTS
  TrailConsistent NoDeadRequirement LearntImplied WatchesConsistent NoClauseFalsified
  C01_ValidOnSat C02_UnsatSound C02_NoSoftError C03_SelfContained C05_Supported
  C07_Preferred C08_DirectBest C14_SoftObliged
  Report
PROPERTY Termination
CHECK_DEADLOCK FALSE
