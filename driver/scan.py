#!/usr/bin/env python3
"""Ad-hoc scan used while tuning generators (not a registered check, writes no evidence):
   scan.py <rules-of-props, e.g. C01,C02> <plan> <n> [variants] [seed]
runs the plan through the real solver, validates the traces with TLC and prints the
number of rule failures per rule."""
import os
import sys
import collections
import vlib


def main():
    props, plan, n = sys.argv[1], sys.argv[2], int(sys.argv[3])
    variants = sys.argv[4] if len(sys.argv) > 4 else ""
    seed = int(sys.argv[5]) if len(sys.argv) > 5 else 1
    vlib.ENABLED_PROPS.clear()
    vlib.ENABLED_PROPS.update(props.split(","))
    exe = vlib.build_harness("release")
    wd = vlib.fresh_dir(os.path.join(vlib.WORK, "_scan"))
    allc = os.path.join(wd, "all")
    cnt = vlib.gen_cases(exe, allc, plan, n, seed, variants, whitebox=True, first_id=1)
    files = vlib.split_file(allc, max(1, min(14, cnt // 100 + 1)), wd, "p")
    res = vlib.run_and_validate(exe, files, "_scan", jobs=14)
    by = collections.Counter(f["rule"] for f in vlib.first_fail_per_run(res.fails))
    print(f"cases {cnt} runs {res.runs} failures {dict(by)}")
    for f in vlib.first_fail_per_run(res.fails)[:3]:
        print("  ", f["rule"], "case", f["id"], f["info"][:200])
    print("cover", {k: v for k, v in sorted(res.cover.items())})
    # learnt clauses per run (how conflict-rich the profile is)
    import glob
    hist = collections.Counter()
    for t in glob.glob(os.path.join(wd, "*.trace")):
        n = None
        for line in open(t):
            if '"ev":"begin"' in line:
                n = 0
            elif '"ev":"learnt"' in line and n is not None:
                n += 1
            elif '"ev":"end"' in line and n is not None:
                hist[min(n, 10)] += 1
                n = None
    print("learnt clauses per run (10 = 10+):", dict(sorted(hist.items())))


if __name__ == "__main__":
    main()
