----------------------------- MODULE Trace_Pool -----------------------------
(* C18, implementation -> spec: long random histories of intern / lookup / resolve
   calls on a real resolvo::utils::Pool (hundreds of items per table, so every arena
   crosses its 128-element chunk boundary several times), recorded with the id each
   call returned, are followed through Pool.tla.  After every call the harness
   re-resolves EVERYTHING it was ever handed (address and value) and reports whether
   all of it is unchanged (`stable`), and resolves one further id whose value is
   compared with the model's table. *)
EXTENDS Integers, Sequences, FiniteSets, Json, IOUtils, TLC

Rec == ndJsonDeserialize(IOEnv.TRACE)

VARIABLES l, hid, bulk, names, strs, vss, solvs, unions, ret
P == INSTANCE Pool WITH NameVals <- {}, StrVals <- {}, VsVals <- {}, RecVals <- {}, BulkSizes <- {},
                        MaxSolv <- 1000000, MaxUnion <- 1000000, MaxVs <- 1000000
vars == <<l, hid, bulk, names, strs, vss, solvs, unions, ret>>

Fail(rule, info) == PrintT("RULEFAIL|" \o ToString(hid) \o "|1|" \o ToString(l) \o "|" \o rule \o "|" \o ToString(info))
Chk(ok, rule, info) == IF ok THEN TRUE ELSE Fail(rule, info)

Init == l = 1 /\ hid = -1 /\ bulk = 0 /\ names = <<>> /\ strs = <<>> /\ vss = <<>> /\ solvs = <<>> /\ unions = <<>> /\ ret = -1

Reset == /\ l <= Len(Rec) /\ Rec[l].ev = "reset" /\ l' = l + 1 /\ hid' = Rec[l].id
         /\ bulk' = 0 /\ names' = <<>> /\ strs' = <<>> /\ vss' = <<>> /\ solvs' = <<>> /\ unions' = <<>> /\ ret' = -1
         /\ PrintT("BEGIN|" \o ToString(Rec[l].id) \o "|1|pool-history")

\* value of id `i` in table `t` according to the model (ids are 0-based)
ModelValue(t, i) ==
  CASE t = "name" -> IF i + 1 \in DOMAIN names' THEN <<names'[i + 1]>> ELSE <<-1>>
    [] t = "string" -> IF i + 1 \in DOMAIN strs' THEN <<strs'[i + 1]>> ELSE <<-1>>
    [] t = "vs" -> IF i + 1 \in DOMAIN vss' THEN vss'[i + 1] ELSE <<-1>>
    [] t = "solvable" -> IF i + 1 \in DOMAIN solvs' THEN solvs'[i + 1] ELSE <<-1>>
    [] t = "union" -> IF i + 1 \in DOMAIN unions' THEN unions'[i + 1] ELSE <<-1>>

\* the call refers only to ids the model knows (otherwise the real pool has handed out an
\* id the model never did: reported, the call is skipped, the rest is still judged)
Known(r) == CASE r.op \in {"vs", "solvable"} -> r.a + 1 \in DOMAIN names
              [] r.op = "union" -> r.ms # <<>> /\ \A i \in DOMAIN r.ms : r.ms[i] + 1 \in DOMAIN vss
              [] OTHER -> TRUE

OpUnknown == /\ l <= Len(Rec) /\ Rec[l].ev = "op" /\ ~Known(Rec[l]) /\ l' = l + 1
             /\ UNCHANGED <<hid, bulk, names, strs, vss, solvs, unions, ret>>
             /\ Fail("C18_Id", <<"call refers to an id the model never handed out", Rec[l].op, Rec[l].a>>)

Op == /\ l <= Len(Rec) /\ Rec[l].ev = "op" /\ Known(Rec[l]) /\ l' = l + 1 /\ UNCHANGED hid
      /\ LET r == Rec[l] IN
         /\ CASE r.op = "name" -> P!InternName(r.a)
              [] r.op = "string" -> P!InternString(r.a)
              [] r.op = "vs" -> P!InternVs(r.a + 1, r.b)
              [] r.op = "solvable" -> P!InternSolvable(r.a + 1, r.b)
              [] r.op = "union" -> P!InternUnionSeq([i \in DOMAIN r.ms |-> r.ms[i] + 1])
              [] r.op = "lookup" -> UNCHANGED <<bulk, names, strs, vss, solvs, unions>> /\
                                    ret' = P!IndexOf(names, r.a) - 1
         /\ Chk(r.ret = ret', "C18_Id", <<r.op, r.a, r.b, r.ret, ret'>>)
         /\ Chk(r.stable, "C18_ReferenceChanged", r.op)
         /\ Chk(r.rval = ModelValue(r.rt, r.rid), "C18_Resolve", <<r.rt, r.rid, r.rval, ModelValue(r.rt, r.rid)>>)
         /\ Chk(P!InternUnique', "C18_ModelNotUnique", 0)
         /\ (IF Len(names') > 128 /\ Len(vss') > 128 /\ Len(solvs') > 128
             THEN PrintT("COVER|" \o ToString(hid) \o "|1|chunks") ELSE TRUE)

Next == Reset \/ Op \/ OpUnknown
Spec == Init /\ [][Next]_vars
Accepted ==
  IF TLCGet("stats").diameter - 1 = Len(Rec) THEN TRUE
  ELSE PrintT("NOTCONSUMED|" \o ToString(TLCGet("stats").diameter) \o "|" \o ToString(Len(Rec))) /\ FALSE
=============================================================================
