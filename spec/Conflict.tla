------------------------------ MODULE Conflict ------------------------------
(***************************************************************************)
(* C03: what a conflict graph must state.                                  *)
(*                                                                         *)
(* G = [nodes, edges, root] as returned by Conflict::graph:                *)
(*   nodes[i] = [k \in {"root","solv","unres","excl"}, id]                 *)
(*   edges[e] = [s, t, k \in {"req","cons","lock","excl","forbid"}, vs, x] *)
(* vs is the requirement (sequence of version sets) of a "req" edge or the *)
(* one-element sequence of a "cons" edge; x is the locked solvable of a    *)
(* "lock" edge.                                                            *)
(***************************************************************************)
EXTENDS Universe

NodeSolv(G, i) == IF G.nodes[i].k = "solv" THEN G.nodes[i].id ELSE 0    \* root -> 0
IsSR(G, i)     == G.nodes[i].k \in {"solv", "root"}
EdgesOf(G, k)  == {e \in DOMAIN G.edges : G.edges[e].k = k}

\* each edge states a true fact about the provider's data
EdgeTrue(U, P, G, e) ==
  LET a == G.edges[e].s
      b == G.edges[e].t
      k == G.edges[e].k
  IN CASE k = "req" ->
            /\ IsSR(G, a)
            /\ \E i \in DOMAIN ReqsOf(U, P, NodeSolv(G, a)) :
                  ReqsOf(U, P, NodeSolv(G, a))[i] = G.edges[e].vs
            /\ IF G.nodes[b].k = "unres"
               THEN ReqCands(U, G.edges[e].vs) = <<>>
               ELSE G.nodes[b].k = "solv" /\ G.nodes[b].id \in Range(ReqCands(U, G.edges[e].vs))
       [] k = "cons" ->
            /\ IsSR(G, a) /\ G.nodes[b].k = "solv"
            /\ LET v == G.edges[e].vs[1] IN
                 /\ \E i \in DOMAIN ConsOf(U, P, NodeSolv(G, a)) : ConsOf(U, P, NodeSolv(G, a))[i] = v
                 /\ G.nodes[b].id \in Range(NonMatch(U, v))
       [] k = "lock" ->
            /\ G.nodes[a].k = "root" /\ G.nodes[b].k = "solv"
            /\ LET c == G.nodes[b].id IN
                 /\ U.pkg[NameOf(U, c)].locked = G.edges[e].x
                 /\ c # G.edges[e].x
       [] k = "excl" ->
            /\ G.nodes[a].k = "solv" /\ G.nodes[b].k = "excl"
            /\ LET c == G.nodes[a].id IN
                 c \in Range(U.pkg[NameOf(U, c)].excluded) \/ ~U.solv[c].known
       [] k = "forbid" ->
            /\ G.nodes[a].k = "solv" /\ G.nodes[b].k = "solv"
            /\ NameOf(U, G.nodes[a].id) = NameOf(U, G.nodes[b].id)
       [] OTHER -> FALSE

\* the requires edges of one (source, requirement) show exactly its candidates
ReqGroups(G) == {<<G.edges[e].s, G.edges[e].vs>> : e \in EdgesOf(G, "req")}
GroupTargets(G, g) ==
  {G.edges[e].t : e \in {x \in EdgesOf(G, "req") : G.edges[x].s = g[1] /\ G.edges[x].vs = g[2]}}
GroupExact(U, G, g) ==
  LET ts == GroupTargets(G, g)
      cs == Range(ReqCands(U, g[2]))
  IN IF cs = {} THEN \A t \in ts : G.nodes[t].k = "unres"
     ELSE /\ \A t \in ts : G.nodes[t].k = "solv"
          /\ {G.nodes[t].id : t \in ts} = cs

RECURSIVE ReachFix(_, _)
ReachFix(G, R) ==
  LET R2 == R \cup {G.edges[e].t : e \in {x \in DOMAIN G.edges : G.edges[x].s \in R}}
  IN IF R2 = R THEN R ELSE ReachFix(G, R2)
Reachable(G) == ReachFix(G, {G.root}) = DOMAIN G.nodes

\* node kinds are unique where the code promises it
NodesDistinct(G) ==
  /\ \A i, j \in DOMAIN G.nodes :
       G.nodes[i].k = "solv" /\ G.nodes[j].k = "solv" /\ G.nodes[i].id = G.nodes[j].id => i = j
  /\ Cardinality({i \in DOMAIN G.nodes : G.nodes[i].k = "root"}) = 1
  /\ G.nodes[G.root].k = "root"

(***************************************************************************)
(* Self-containedness: the facts the picture shows admit no selection that *)
(* installs the root.  T ranges over sets of solvable nodes.               *)
(***************************************************************************)
SolvNodes(G)   == {i \in DOMAIN G.nodes : G.nodes[i].k = "solv"}
ForbidNodes(G) == UNION {{G.edges[e].s, G.edges[e].t} : e \in EdgesOf(G, "forbid")}
Dead(G)        == {G.edges[e].t : e \in EdgesOf(G, "lock")} \cup {G.edges[e].s : e \in EdgesOf(G, "excl")}

Consistent(U, G, T) ==
  /\ T \cap Dead(G) = {}
  /\ \A g \in ReqGroups(G) : g[1] \in T => GroupTargets(G, g) \cap T # {}
  /\ \A e \in EdgesOf(G, "cons") : G.edges[e].s \in T => G.edges[e].t \notin T
  /\ \A a, b \in T \cap ForbidNodes(G) :
        a # b => NameOf(U, G.nodes[a].id) # NameOf(U, G.nodes[b].id)

\* Propositional reading of the picture: literals are <<node, 0|1>> (see Universe!Unsat).
GraphClauses(U, G) ==
       {{<<g[1], 0>>} \cup {<<t, 1>> : t \in {x \in GroupTargets(G, g) : G.nodes[x].k = "solv"}} : g \in ReqGroups(G)}
  \cup {{<<G.edges[e].s, 0>>, <<G.edges[e].t, 0>>} : e \in EdgesOf(G, "cons")}
  \cup {{<<n, 0>>} : n \in Dead(G)}
  \cup UNION {{{<<a, 0>>, <<b, 0>>} : b \in {x \in ForbidNodes(G) :
              x # a /\ NameOf(U, G.nodes[x].id) = NameOf(U, G.nodes[a].id)}} : a \in ForbidNodes(G)}

Refutes(U, G) == Unsat(GraphClauses(U, G), {<<G.root, 1>>})

\* a cycle of requires edges (the renderer must cut it)
RECURSIVE ReqReach(_, _)
ReqReach(G, R) ==
  LET R2 == R \cup {G.edges[e].t : e \in {x \in EdgesOf(G, "req") : G.edges[x].s \in R}}
  IN IF R2 = R THEN R ELSE ReqReach(G, R2)
HasReqCycle(G) == \E e \in EdgesOf(G, "req") : G.edges[e].s \in ReqReach(G, {G.edges[e].t})

(***************************************************************************)
(* C04: size of the rendered message.  The renderer unfolds the requires   *)
(* subgraph as a tree, so the number of lines is bounded by the number of  *)
(* simple paths from the root (plus headers).                              *)
(***************************************************************************)
RECURSIVE PathsFrom(_, _, _)
PathsFrom(G, n, seen) ==
  1 + LET succ == {G.edges[e].t : e \in {x \in EdgesOf(G, "req") : G.edges[x].s = n}} \ seen
          RECURSIVE Sum(_)
          Sum(S) == IF S = {} THEN 0
                    ELSE LET m == CHOOSE m \in S : TRUE IN PathsFrom(G, m, seen \cup {m}) + Sum(S \ {m})
      IN Sum(succ)
SimplePaths(G) == PathsFrom(G, G.root, {G.root})
\* every printed line belongs to the visit of a node reached along a simple path
\* (its own line, one per outgoing requirement group / constrains edge, one per
\* cycle cut-off below those), plus headers and one line per root conflict edge
RenderBound(G) == SimplePaths(G) * (2 * Len(G.edges) + 1) + Len(G.edges) + 6
RenderOK(G, lines) == lines <= 2 * Len(G.edges) + 10 \/ lines <= RenderBound(G)
=============================================================================
