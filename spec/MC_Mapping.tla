---------------------------- MODULE MC_Mapping ----------------------------
(* TLC-only wrapper: prints the complete labelled state graph, one line per
   transition, for the replay driver (spec -> implementation). *)
EXTENDS Mapping, TLC, Json

QuickIds == <<0, 1, 127, 128, 300>>
ThoroughIds == <<0, 1, 2, 126, 127, 128, 129, 255, 256, 1000>>

Key(mm, ll, xx) == ToJson(<<mm, ll, xx>>)
Emit(op) == PrintT("EDGE|" \o Key(m, len, max) \o "|" \o ToJson(op) \o "|" \o Key(m', len', max')
                   \o "|" \o ToJson(Obs(m', len', max')))

MCInit == Init /\ PrintT("INIT|" \o Key(m, len, max) \o "|" \o ToJson(Obs(m, len, max)))

MCNext == \/ \E k \in Ids, v \in Vals : Insert(k, v) /\ Emit([op |-> "insert", k |-> k, v |-> v])
          \/ \E k \in Ids : Unset(k) /\ Emit([op |-> "unset", k |-> k, v |-> 0])
          \/ RoundTrip /\ Emit([op |-> "roundtrip", k |-> 0, v |-> 0])

MCSpec == MCInit /\ [][MCNext]_vars
=============================================================================
