------------------------------ MODULE CowRefInd ------------------------------
(***************************************************************************)
(* C17, the reference-count protocol of CowVector.tla for histories of ANY  *)
(* length.  TLC explores CowVector.tla exhaustively, but there every        *)
(* allocation takes a fresh buffer id below MaxBuf, so its behaviours are   *)
(* bounded by the number of allocations.  Here the element data is          *)
(* abstracted away (none of the four invariants below depends on it), a     *)
(* fresh buffer is ANY unallocated id, and IndInv is shown inductive with   *)
(* Apalache over arbitrary handle and buffer ids:                           *)
(*    Init => IndInv                    (--init=Init    --length=0)         *)
(*    IndInv /\ Next => IndInv'         (--init=IndInit --length=1)         *)
(* Actions are those of CowVector.tla (New, FromValues, Copy, Drop, Own via *)
(* Push / MutAccess, Clear, Consume) with `data` erased.                    *)
(***************************************************************************)
EXTENDS Integers, FiniteSets, Apalache

CONSTANTS
  \* @type: Set(Int);
  Handles,
  \* @type: Set(Int);
  Bufs           \* buffer ids other than the static buffer 0

VARIABLES
  \* @type: Int -> Int;
  h,             \* handle -> buffer id, -1 = the handle does not exist
  \* @type: Int -> Int;
  rc,            \* buffer id -> reference count (meaningful for allocated buffers)
  \* @type: Set(Int);
  alloc          \* allocated buffers; always contains 0, the static empty buffer (rc = -1)

ConstInit == /\ Handles = Gen(4) /\ Handles # {}
             /\ Bufs = Gen(5) /\ \A b \in Bufs : b > 0

All == Bufs \cup {0}
Live == {x \in Handles : h[x] # -1}

Init == /\ h = [x \in Handles |-> -1]
        /\ rc = [b \in All |-> IF b = 0 THEN -1 ELSE 0]
        /\ alloc = {0}

\* @type: (Int -> Int, Set(Int), Int) => <<Int -> Int, Set(Int)>>;
Release(r, a, b) ==
  IF r[b] <= 0 THEN <<r, a>>
  ELSE IF r[b] = 1 THEN <<r, a \ {b}>>
  ELSE <<[r EXCEPT ![b] = r[b] - 1], a>>

New(x) == h[x] = -1 /\ h' = [h EXCEPT ![x] = 0] /\ UNCHANGED <<rc, alloc>>

FromValues(x) ==
  /\ h[x] = -1
  /\ \E b \in Bufs \ alloc :
       /\ h' = [h EXCEPT ![x] = b]
       /\ rc' = [rc EXCEPT ![b] = 1]
       /\ alloc' = alloc \cup {b}

Copy(x, y) ==
  /\ h[x] # -1 /\ h[y] = -1
  /\ h' = [h EXCEPT ![y] = h[x]]
  /\ rc' = IF rc[h[x]] > 0 THEN [rc EXCEPT ![h[x]] = rc[h[x]] + 1] ELSE rc
  /\ UNCHANGED alloc

Drop(x) ==
  /\ h[x] # -1
  /\ h' = [h EXCEPT ![x] = -1]
  /\ LET r == Release(rc, alloc, h[x]) IN rc' = r[1] /\ alloc' = r[2]

Own(x) ==
  LET r == Release(rc, alloc, h[x]) IN
  \E b \in Bufs \ alloc :
     /\ h' = [h EXCEPT ![x] = b]
     /\ rc' = [r[1] EXCEPT ![b] = 1]
     /\ alloc' = r[2] \cup {b}

\* Push and the C++ non-const accessor: write in place when unshared, else copy on write
Write(x) ==
  /\ h[x] # -1
  /\ IF rc[h[x]] = 1 THEN UNCHANGED <<h, rc, alloc>> ELSE Own(x)

Clear(x) ==
  /\ h[x] # -1
  /\ IF rc[h[x]] = 1 THEN UNCHANGED <<h, rc, alloc>>
     ELSE /\ h' = [h EXCEPT ![x] = 0]
          /\ LET r == Release(rc, alloc, h[x]) IN rc' = r[1] /\ alloc' = r[2]

Next == \/ \E x \in Handles : New(x) \/ FromValues(x) \/ Drop(x) \/ Write(x) \/ Clear(x)
        \/ \E x \in Handles, y \in Handles : Copy(x, y)

TypeOK == /\ h \in [Handles -> All \cup {-1}]
          /\ rc \in [All -> Int]
          /\ alloc \subseteq All
RefCountExact == \A b \in alloc \ {0} : rc[b] = Cardinality({x \in Live : h[x] = b})
NoDangling    == \A x \in Live : h[x] \in alloc
NoLeak        == \A b \in alloc \ {0} : \E x \in Live : h[x] = b
StaticIntact  == 0 \in alloc /\ rc[0] = -1

IndInv == TypeOK /\ RefCountExact /\ NoDangling /\ NoLeak /\ StaticIntact

IndInit == /\ h \in [Handles -> All \cup {-1}]
           /\ alloc \in SUBSET All
           /\ rc = [b \in All |-> IF b = 0 THEN -1 ELSE Cardinality({x \in {y \in Handles : h[y] # -1} : h[x] = b})]
           /\ IndInv
=============================================================================
