//! C16: dependency snapshots.  For every case the live provider is captured
//! into a DependencySnapshot from a choice of seeds; the snapshot provider is
//! interrogated through the DependencyProvider / Interner traits for every
//! captured id (`q_*` lines), version sets are added (`addreq`), the
//! interrogation is repeated, the problem is solved through the snapshot, and
//! everything is repeated after a serde round trip.

use std::io::Write;
use std::panic::{catch_unwind, AssertUnwindSafe};
use std::rc::Rc;

use futures::FutureExt;
use resolvo::snapshot::{DependencySnapshot, SnapshotProvider};
use resolvo::{
    Dependencies, DependencyProvider, Interner, NameId, Problem as RProblem, Requirement, SolvableId, Solver,
    UnsolvableOrCancelled, VersionSetId, VersionSetUnionId,
};
use serde_json::{json, Value};

use crate::model::*;
use crate::provider::*;
use crate::rng::Rng;
use crate::{get_arg, read_cases};

fn stub(kind: &str, site: &str, msg: &str) -> Value {
    json!({"ev":"result","kind":kind,"phase":"solve","site":site,"msg":msg,
        "sol":[],"v":0,"graph":{"nodes":[],"edges":[],"root":0},"lines":0,"msglen":0,"dot":0,"dots":0})
}

struct Ctx<'a> {
    m: &'a IdMaps,
    tp: &'a TableProvider,
}

/// all queries against one snapshot provider
fn interrogate(cx: &Ctx, snap: &DependencySnapshot, sp: &SnapshotProvider, phase: &str, out: &mut Vec<Value>) {
    let m = cx.m;
    let names: Vec<NameId> = snap.packages_ids();
    for n in &names {
        let r = catch_unwind(AssertUnwindSafe(|| {
            let c = sp.get_candidates(*n).now_or_never().unwrap().unwrap_or_default();
            let cands: Vec<u32> = c.candidates.iter().map(|s| m.ws(*s)).collect();
            let excl: Vec<u32> = c.excluded.iter().map(|(s, _)| m.ws(*s)).collect();
            // provider preference order over the whole candidate list
            let mut sorted = c.candidates.clone();
            let cache = resolvo::SolverCache::new(SnapshotProvider::new(snap));
            SnapshotProvider::new(snap)
                .sort_candidates(&cache, &mut sorted)
                .now_or_never()
                .unwrap();
            let order: Vec<u32> = sorted.iter().map(|s| m.ws(*s)).collect();
            json!({"ev":"q_cands","phase":phase,"n":m.wn(*n),"cands":cands,"excluded":excl,"order":order,
                   "favored": c.favored.is_some(), "locked": c.locked.is_some()})
        }));
        out.push(r.unwrap_or_else(|_| json!({"ev":"q_panic","phase":phase,"what":"cands","id":m.wn(*n)})));
    }
    for v in snap.version_set_ids() {
        let r = catch_unwind(AssertUnwindSafe(|| {
            let name = sp.version_set_name(v);
            let c = sp.get_candidates(name).now_or_never().unwrap().unwrap_or_default();
            let mt = sp.filter_candidates(&c.candidates, v, false).now_or_never().unwrap();
            let non = sp.filter_candidates(&c.candidates, v, true).now_or_never().unwrap();
            json!({"ev":"q_match","phase":phase,"v":m.wv(v),"name":m.wn(name),
                   "match": mt.iter().map(|s| m.ws(*s)).collect::<Vec<_>>(),
                   "non": non.iter().map(|s| m.ws(*s)).collect::<Vec<_>>(),
                   "display": sp.display_version_set(v).to_string()})
        }));
        out.push(r.unwrap_or_else(|_| json!({"ev":"q_panic","phase":phase,"what":"vs","id":m.wv(v)})));
    }
    for s in snap.solvable_ids() {
        let r = catch_unwind(AssertUnwindSafe(|| {
            let name = sp.solvable_name(s);
            let d = sp.get_dependencies(s).now_or_never().unwrap();
            let (known, reqs, cons) = match d {
                Dependencies::Unknown(_) => (false, vec![], vec![]),
                Dependencies::Known(k) => (
                    true,
                    k.requirements
                        .iter()
                        .map(|r| match r {
                            Requirement::Single(v) => vec![m.wv(*v)],
                            Requirement::Union(u) => sp.version_sets_in_union(*u).map(|v| m.wv(v)).collect(),
                        })
                        .collect::<Vec<Vec<u32>>>(),
                    k.constrains.iter().map(|v| m.wv(*v)).collect::<Vec<u32>>(),
                ),
            };
            json!({"ev":"q_deps","phase":phase,"s":m.ws(s),"name":m.wn(name),"known":known,"reqs":reqs,"cons":cons})
        }));
        out.push(r.unwrap_or_else(|_| json!({"ev":"q_panic","phase":phase,"what":"solv","id":m.ws(s)})));
    }
    let _ = cx.tp;
}

trait SnapIds {
    fn packages_ids(&self) -> Vec<NameId>;
    fn version_set_ids(&self) -> Vec<VersionSetId>;
    fn solvable_ids(&self) -> Vec<SolvableId>;
    fn union_ids(&self) -> Vec<VersionSetUnionId>;
}

/// The ids stored in a snapshot, obtained WITHOUT Mapping::iter (so that this
/// harness does not depend on the very thing C19 checks): probe every raw id of
/// the id maps.
struct Probe<'a>(&'a DependencySnapshot, &'a IdMaps, u32);
impl SnapIds for DependencySnapshot {
    fn packages_ids(&self) -> Vec<NameId> {
        (0..=12000u32).map(NameId).filter(|n| self.packages.get(*n).is_some()).collect()
    }
    fn version_set_ids(&self) -> Vec<VersionSetId> {
        (0..=12000u32).map(VersionSetId).filter(|n| self.version_sets.get(*n).is_some()).collect()
    }
    fn solvable_ids(&self) -> Vec<SolvableId> {
        (0..=12000u32).map(SolvableId).filter(|n| self.solvables.get(*n).is_some()).collect()
    }
    fn union_ids(&self) -> Vec<VersionSetUnionId> {
        (0..=12000u32).map(VersionSetUnionId).filter(|n| self.version_set_unions.get(*n).is_some()).collect()
    }
}

fn solve_through(
    case: &Case,
    m: &IdMaps,
    tp: &TableProvider,
    sp: SnapshotProvider,
    tag: &str,
    group: u64,
    lines: &mut Vec<Value>,
    extra_req: Option<VersionSetId>,
) {
    let p = &case.ps[0];
    let mut cfg = case.cfg.clone();
    cfg.group = group;
    cfg.same = "verdict".into();
    cfg.render = false;
    lines.push(json!({"ev":"begin","id":case.id,"k":1,"fresh":true,"profile":format!("{}+{tag}", case.profile),
                      "u":case.u,"p":p,"cfg":cfg}));
    let r = catch_unwind(AssertUnwindSafe(|| {
        // the problem's requirements: captured version sets keep their ids; unions are
        // re-interned by the live provider, whose union ids the snapshot captured
        let mut reqs: Vec<Requirement> = p.reqs.iter().map(|r| tp.requirement(r)).collect();
        if let Some(v) = extra_req {
            reqs.push(v.into());
        }
        let mut solver = Solver::new(sp);
        let prob = RProblem::new()
            .requirements(reqs)
            .constraints(p.cons.iter().map(|&v| m.vid(v)).collect());
        match solver.solve(prob) {
            Ok(sol) => {
                let sol: Vec<u32> = sol.iter().map(|s| m.ws(*s)).collect();
                json!({"ev":"result","kind":"sat","phase":"","site":"","msg":"","sol":sol,"v":0,
                       "graph":{"nodes":[],"edges":[],"root":0},"lines":0,"msglen":0,"dot":0,"dots":0})
            }
            Err(UnsolvableOrCancelled::Unsolvable(c)) => {
                let msg = c.display_user_friendly(&solver).to_string();
                json!({"ev":"result","kind":"unsat_nograph","phase":"","site":"","msg":"","sol":[],"v":0,
                       "graph":{"nodes":[],"edges":[],"root":0},"lines":msg.lines().count(),"msglen":msg.len(),"dot":0,"dots":0})
            }
            Err(UnsolvableOrCancelled::Cancelled(_)) => stub("cancelled", "", ""),
        }
    }));
    match r {
        Ok(v) => lines.push(v),
        Err(_) => {
            let (loc, msg) = crate::run::LAST_PANIC.with(|p| p.borrow_mut().take()).unwrap_or_default();
            lines.push(stub("panic", &loc, &msg.replace('\n', " ")));
        }
    }
    lines.push(json!({"ev":"end"}));
}

pub fn snap_cmd(args: &[String]) {
    let cases = read_cases(&get_arg(args, "--cases").unwrap());
    let out_snap = get_arg(args, "--out-snap").unwrap();
    let out_solve = get_arg(args, "--out-solve").unwrap();
    let seed: u64 = get_arg(args, "--seed").map(|s| s.parse().unwrap()).unwrap_or(1);
    crate::run::install_panic_hook();
    let mut fs = std::io::BufWriter::new(std::fs::File::create(&out_snap).unwrap());
    let mut fv = std::io::BufWriter::new(std::fs::File::create(&out_solve).unwrap());
    let mut rng = Rng::new(seed ^ 0x5A9);
    for case in &cases {
        let u = Rc::new(case.u.clone());
        let rec = Rc::new(Recorder::default());
        let tp = TableProvider::new(u.clone(), rec.clone(), None, &case.cfg);
        let m = tp.maps.clone();
        let p = &case.ps[0];
        // make sure the unions of the problem are interned by the live provider first
        let root_reqs: Vec<Requirement> = p.reqs.iter().map(|r| tp.requirement(r)).collect();
        // seeds: the root's version sets always (so the problem can be solved through the
        // snapshot), plus a random choice of names / version sets / solvables,
        // always including the highest-numbered version set half of the time
        let mut seed_vs: Vec<u32> = p.reqs.iter().flatten().copied().chain(p.cons.iter().copied()).collect();
        let mut seed_names: Vec<u32> = vec![];
        let mut seed_solv: Vec<u32> = vec![];
        for n in 1..=case.u.pkg.len() as u32 {
            if rng.chance(0.3) {
                seed_names.push(n);
            }
        }
        for v in 1..=case.u.vs.len() as u32 {
            if rng.chance(0.2) {
                seed_vs.push(v);
            }
        }
        for s in 1..=case.u.solv.len() as u32 {
            if rng.chance(0.15) {
                seed_solv.push(s);
            }
        }
        if rng.chance(0.5) && !case.u.vs.is_empty() {
            // the version set with the highest raw id
            let hi = (1..=case.u.vs.len() as u32).max_by_key(|&w| m.vid(w).0).unwrap();
            seed_vs.push(hi);
        }
        seed_vs.sort();
        seed_vs.dedup();
        let mut lines: Vec<Value> = Vec::new();
        lines.push(json!({"ev":"begin","id":case.id,"profile":case.profile,"u":case.u,"p":p,
            "seeds":{"names":seed_names,"vs":seed_vs,"solv":seed_solv},
            "rawvs": (1..=case.u.vs.len() as u32).map(|w| m.vid(w).0).collect::<Vec<_>>()}));
        let mut solves: Vec<Value> = Vec::new();
        let snap = catch_unwind(AssertUnwindSafe(|| {
            DependencySnapshot::from_provider(
                TableProvider::new(u.clone(), Rc::new(Recorder::default()), None, &case.cfg).with_unions_of(&tp),
                seed_names.iter().map(|&n| m.nid(n)),
                seed_vs.iter().map(|&v| m.vid(v)),
                seed_solv.iter().map(|&s| m.sid(s)),
            )
        }));
        let snap = match snap {
            Ok(Ok(s)) => s,
            _ => {
                lines.push(json!({"ev":"q_panic","phase":"capture","what":"from_provider","id":0}));
                lines.push(json!({"ev":"end"}));
                for l in &lines {
                    writeln!(fs, "{l}").unwrap();
                }
                continue;
            }
        };
        // the live solve, as the reference verdict of the group
        {
            let live = Case { cfg: Cfg { group: case.id, same: String::new(), render: false, ..case.cfg.clone() }, ..case.clone() };
            let o = crate::run::run_case(&live);
            solves.extend(o.lines);
        }
        let cx = Ctx { m: &m, tp: &tp };
        let captured_raw: Vec<u32> = snap.version_set_ids().iter().map(|v| v.0).collect();
        lines.push(json!({"ev":"captured","names":snap.packages_ids().iter().map(|n| m.wn(*n)).collect::<Vec<_>>(),
            "vs":snap.version_set_ids().iter().map(|v| m.wv(*v)).collect::<Vec<_>>(),
            "solv":snap.solvable_ids().iter().map(|s| m.ws(*s)).collect::<Vec<_>>(),
            "unions":snap.union_ids().len()}));
        for round in 0..2 {
            // round 0: the snapshot as captured; round 1: after a serde round trip
            let snap2;
            let the_snap: &DependencySnapshot = if round == 0 {
                &snap
            } else {
                let js = serde_json::to_string(&snap).unwrap();
                match catch_unwind(AssertUnwindSafe(|| serde_json::from_str::<DependencySnapshot>(&js))) {
                    Ok(Ok(s)) => {
                        snap2 = s;
                        &snap2
                    }
                    _ => {
                        lines.push(json!({"ev":"q_panic","phase":"serde","what":"roundtrip","id":0}));
                        break;
                    }
                }
            };
            let ph = if round == 0 { "fresh" } else { "serde" };
            let mut sp = the_snap.provider();
            interrogate(&cx, the_snap, &sp, ph, &mut lines);
            solve_through(case, &m, &tp, the_snap.provider(), &format!("snap-{ph}"), case.id, &mut solves, None);
            // additions
            let nadd = rng.range(1, 3);
            let mut added: Vec<u32> = Vec::new();
            let pk = the_snap.packages_ids();
            let mut last_added: Option<(VersionSetId, NameId)> = None;
            let mut added_for: Vec<(VersionSetId, NameId)> = Vec::new();
            for ai in 0..nadd {
                if pk.is_empty() {
                    break;
                }
                // a deadline far in the future, set in between additions (half of the time):
                // configuring the provider must not disturb what was added to it
                if ai > 0 && rng.chance(0.5) {
                    sp = sp.with_timeout(std::time::SystemTime::now() + std::time::Duration::from_secs(3600));
                }
                let n = *rng.pick(&pk);
                let r = catch_unwind(AssertUnwindSafe(|| sp.add_package_requirement(n, "*")));
                match r {
                    Ok(id) => {
                        let ans = catch_unwind(AssertUnwindSafe(|| {
                            let c = sp.get_candidates(n).now_or_never().unwrap().unwrap_or_default();
                            let mt = sp.filter_candidates(&c.candidates, id, false).now_or_never().unwrap();
                            (m.wn(sp.version_set_name(id)), mt.iter().map(|s| m.ws(*s)).collect::<Vec<u32>>())
                        }));
                        let (an, am, ok) = match ans {
                            Ok((a, b)) => (a, b, true),
                            Err(_) => (0, vec![], false),
                        };
                        lines.push(json!({"ev":"addreq","phase":ph,"n":m.wn(n),"raw":id.0,"captured_raw":captured_raw,
                            "prev":added,"ans_ok":ok,"ans_name":an,"ans_match":am}));
                        added.push(id.0);
                        added_for.push((id, n));
                        last_added = Some((id, n));
                    }
                    Err(_) => lines.push(json!({"ev":"q_panic","phase":ph,"what":"addreq","id":m.wn(n)})),
                }
            }
            // every version set added earlier still answers for the package it was added for
            for (id, n) in &added_for {
                let ans = catch_unwind(AssertUnwindSafe(|| {
                    let c = sp.get_candidates(*n).now_or_never().unwrap().unwrap_or_default();
                    let mt = sp.filter_candidates(&c.candidates, *id, false).now_or_never().unwrap();
                    (m.wn(sp.version_set_name(*id)), mt.iter().map(|s| m.ws(*s)).collect::<Vec<u32>>())
                }));
                let (an, am, ok) = match ans {
                    Ok((a, b)) => (a, b, true),
                    Err(_) => (0, vec![], false),
                };
                lines.push(json!({"ev":"addcheck","phase":ph,"n":m.wn(*n),"raw":id.0,"ans_ok":ok,"ans_name":an,"ans_match":am}));
            }
            let ph2 = format!("{ph}+added");
            interrogate(&cx, the_snap, &sp, &ph2, &mut lines);
            let _ = last_added;
        }
        let _ = root_reqs;
        lines.push(json!({"ev":"end"}));
        for l in &lines {
            writeln!(fs, "{l}").unwrap();
        }
        for l in &solves {
            writeln!(fv, "{l}").unwrap();
        }
    }
    fs.flush().unwrap();
    fv.flush().unwrap();
}
