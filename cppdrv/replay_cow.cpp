// C17: replays the state graph of CowVector.tla on the real resolvo::Vector<T>
// (T = uint32_t and T = resolvo::String), performing each operation on the side
// of the FFI the model names, and compares for every handle after every
// operation: alive, reference count (peeked from the shared header), contents.
// Built with AddressSanitizer + LeakSanitizer: a use-after-free, double free,
// out-of-bounds access or leak ends the run with a report.
//
// script format (written by the driver from TLC's graph):
//   S
//   O <op> <x> <y> <n> <d1> .. <dn>
//   E <nhandles> { <alive> <rc> <n> <d..> }*
#include <resolvo.h>

#include <cstdint>
#include <cstring>
#include <fstream>
#include <iostream>
#include <optional>
#include <sstream>
#include <string>
#include <vector>

using resolvo::Vector;

extern "C" {
void verif_vec_u32_clone(const void *src, void *out);
void verif_vec_u32_push(void *v, uint32_t x);
void verif_vec_u32_from(const uint32_t *vals, size_t n, void *out);
uint64_t verif_vec_u32_consume(void *raw, size_t k);
void verif_vec_str_clone(const void *src, void *out);
void verif_vec_str_push(void *v, uint32_t x);
void verif_vec_str_from(const uint32_t *vals, size_t n, void *out);
uint64_t verif_vec_str_consume(void *raw, size_t k);
}

template <typename T>
struct Ops;
template <>
struct Ops<uint32_t> {
    static uint32_t mk(uint32_t v) { return v; }
    static uint32_t back(const uint32_t &v) { return v; }
    static void clone(const void *s, void *o) { verif_vec_u32_clone(s, o); }
    static void push(void *v, uint32_t x) { verif_vec_u32_push(v, x); }
    static void from(const uint32_t *d, size_t n, void *o) { verif_vec_u32_from(d, n, o); }
    static uint64_t consume(void *raw, size_t k) { return verif_vec_u32_consume(raw, k); }
};
template <>
struct Ops<resolvo::String> {
    static resolvo::String mk(uint32_t v) { return resolvo::String("s" + std::to_string(v)); }
    static uint32_t back(const resolvo::String &s) {
        std::string_view sv(s);
        return (uint32_t)std::stoul(std::string(sv.substr(1)));
    }
    static void clone(const void *s, void *o) { verif_vec_str_clone(s, o); }
    static void push(void *v, uint32_t x) { verif_vec_str_push(v, x); }
    static void from(const uint32_t *d, size_t n, void *o) { verif_vec_str_from(d, n, o); }
    static uint64_t consume(void *raw, size_t k) { return verif_vec_str_consume(raw, k); }
};

// the shared header: {refcount, size, capacity}
template <typename T>
static intptr_t peek_rc(const Vector<T> &v) {
    const intptr_t *p;
    static_assert(sizeof(Vector<T>) == sizeof(void *), "Vector is one pointer");
    std::memcpy(&p, &v, sizeof p);
    return p[0];
}

template <typename T>
static int run(const char *path) {
    std::ifstream f(path);
    std::string line;
    std::optional<Vector<T>> slot[8];
    long scripts = 0, ops = 0, mismatches = 0, rcdrift = 0;
    long step = 0;
    while (std::getline(f, line)) {
        std::istringstream in(line);
        char tag;
        in >> tag;
        if (tag == 'S') {
            for (auto &s : slot) s.reset();
            ++scripts;
            step = 0;
        } else if (tag == 'O') {
            std::string op;
            size_t x, y, n;
            in >> op >> x >> y >> n;
            std::vector<uint32_t> d(n);
            for (auto &v : d) in >> v;
            ++ops;
            ++step;
            if (op == "new") {
                slot[x].emplace();
            } else if (op == "from") {
                std::vector<T> tmp;
                for (auto v : d) tmp.push_back(Ops<T>::mk(v));
                if (d.size() == 2)
                    slot[x].emplace(std::initializer_list<T>{tmp[0], tmp[1]});
                else
                    slot[x].emplace(tmp.begin(), tmp.end());
            } else if (op == "from_rust") {
                slot[x].emplace();
                Ops<T>::from(d.data(), d.size(), &*slot[x]);
            } else if (op == "copy") {
                slot[y].emplace(*slot[x]);
            } else if (op == "copy_rust") {
                slot[y].emplace();
                Ops<T>::clone(&*slot[x], &*slot[y]);
            } else if (op == "drop") {
                slot[x].reset();
            } else if (op == "mutaccess") {
                Vector<T> &v = *slot[x];
                (void)v.begin();
            } else if (op == "clear") {
                slot[x]->clear();
            } else if (op == "push") {
                slot[x]->push_back(Ops<T>::mk(d[0]));
            } else if (op == "push_rust") {
                Ops<T>::push(&*slot[x], d[0]);
            } else if (op == "consume_rust") {
                // hand the vector's pointer over to Rust and forget it on this side
                void *raw;
                std::memcpy(&raw, &*slot[x], sizeof raw);
                new (&*slot[x]) Vector<T>();  // now owns the static empty vector
                slot[x].reset();
                // d[0] = the digest of the first y elements the model says Rust must read
                uint64_t got = Ops<T>::consume(raw, y);
                if (!d.empty() && got != d[0]) {
                    ++mismatches;
                    if (mismatches <= 5)
                        std::cout << "MISMATCH script " << scripts << " step " << step << ": Rust read digest " << got
                                  << " expected " << d[0] << "\n";
                }
            } else {
                std::cerr << "unknown op " << op << "\n";
                return 2;
            }
        } else if (tag == 'E') {
            size_t nh;
            in >> nh;
            for (size_t hx = 1; hx <= nh; ++hx) {
                int alive;
                long rc;
                size_t n;
                in >> alive >> rc >> n;
                std::vector<uint32_t> d(n);
                for (auto &v : d) in >> v;
                bool ok = true;
                std::ostringstream why;
                if ((bool)alive != slot[hx].has_value()) {
                    ok = false;
                    why << "alive " << slot[hx].has_value();
                } else if (alive) {
                    const Vector<T> &v = *slot[hx];
                    // the reference count is the protocol's business: a count other than the
                    // model's is conformance drift (counted); what it would break - a leak, a
                    // double free, a write through a shared buffer - is caught as such: by
                    // the sanitizers when the handles are destroyed and by the contents below
                    if (peek_rc(v) != rc) ++rcdrift;
                    if (v.size() != n || v.capacity() < v.size()) {
                        ok = false;
                        why << " size " << v.size() << " expected " << n;
                    } else {
                        for (size_t i = 0; i < n; ++i)
                            if (Ops<T>::back(v.at(i)) != d[i]) {
                                ok = false;
                                why << " elem " << i;
                            }
                    }
                }
                if (!ok) {
                    ++mismatches;
                    if (mismatches <= 5)
                        std::cout << "MISMATCH script " << scripts << " step " << step << " handle " << hx << ": "
                                  << why.str() << "\n";
                }
            }
        }
    }
    for (auto &s : slot) s.reset();
    std::cout << "DONE scripts " << scripts << " ops " << ops << " mismatches " << mismatches << " rcdrift " << rcdrift << "\n";
    return mismatches ? 1 : 0;
}

int main(int argc, char **argv) {
    if (argc < 3) {
        std::cerr << "usage: replay_cow <script> u32|string\n";
        return 2;
    }
    if (std::string(argv[2]) == "u32") return run<uint32_t>(argv[1]);
    return run<resolvo::String>(argv[1]);
}
