---------------------------- MODULE Trace_Solve ----------------------------
(***************************************************************************)
(* Layer C: judges a trace recorded from the real solver, line by line,    *)
(* against the weakest rule every correct implementation must obey         *)
(* (DESIGN section 3.9).  Rules report and continue: a broken rule prints  *)
(*   <<"RULEFAIL", case id, solve index, line, rule, info>>                *)
(* and the state is updated as if it had held, so one bad run never hides  *)
(* the rest of the shard.  <<"COVER", case id, tags>> lines record which   *)
(* premises actually held (vacuity is measured, not assumed).              *)
(***************************************************************************)
EXTENDS Conflict, Json, IOUtils, TLC

CONSTANT OracleBound      \* largest selection space the brute-force oracle is asked about

Rec == ndJsonDeserialize(IOEnv.TRACE)

VARIABLES l,      \* next line
          ctx,    \* [id, k, u, p, cfg]
          bb,     \* provider-side state
          wb      \* solver-internal state rebuilt from hook events
vars == <<l, ctx, bb, wb>>

u == ctx.u
p == ctx.p

\* one output line per report: PrintT of a string is never wrapped by TLC
Line(kind, id, k, rest) == PrintT(kind \o "|" \o ToString(id) \o "|" \o ToString(k) \o "|" \o rest)
Fail(rule, info) == Line("RULEFAIL", ctx.id, ctx.k, ToString(l) \o "|" \o rule \o "|" \o ToString(info))
Check(ok, rule, info) == IF ok THEN TRUE ELSE Fail(rule, info)
RECURSIVE JoinTags(_)
JoinTags(t) == IF t = <<>> THEN "" ELSE Head(t) \o (IF Len(t) > 1 THEN "," ELSE "") \o JoinTags(Tail(t))
Cover(tags) == Line("COVER", ctx.id, ctx.k, JoinTags(tags))

E(k) == l <= Len(Rec) /\ Rec[l].ev = k /\ l' = l + 1

NoHints(U) == \A n \in Names(U) : U.pkg[n].hint.mode = "none"
HintedOf(U, n) == IF ~U.pkg[n].exists THEN {}
                  ELSE IF U.pkg[n].hint.mode = "all" THEN Range(U.pkg[n].cands)
                  ELSE IF U.pkg[n].hint.mode = "some" THEN Range(U.pkg[n].hint.list)
                  ELSE {}

BB0 == [dcalls |-> {}, ccalls |-> {}, dret |-> {}, cret |-> {}, kreqs |-> {}, knames |-> {},
        cancelSeen |-> FALSE, cancelVal |-> 0, prevSolves |-> 0, callsThisSolve |-> 0]
WB0 == [cls |-> <<>>, trail |-> <<>>, A |-> {}, vsolv |-> <<>>, vhelp |-> <<>>, on |-> FALSE]

Init == /\ l = 1
        /\ ctx = [id |-> -1, k |-> 0, u |-> [pkg |-> <<>>, solv |-> <<>>, vs |-> <<>>],
                  p |-> [reqs |-> <<>>, cons |-> <<>>, soft |-> <<>>], cfg |-> [mode |-> ""]]
        /\ bb = BB0
        /\ wb = WB0

(***************************************************************************)
(* begin: a new solve; a fresh solver forgets everything, a reused one     *)
(* keeps what it fetched (C13).                                            *)
(***************************************************************************)
Begin ==
  /\ E("begin")
  /\ LET r == Rec[l]
         base == IF r.fresh THEN BB0 ELSE [bb EXCEPT !.prevSolves = bb.prevSolves + 1]
     IN /\ ctx' = [id |-> r.id, k |-> r.k, u |-> r.u, p |-> r.p, cfg |-> r.cfg]
        /\ Line("BEGIN", r.id, r.k, r.profile)
        /\ (IF WF(r.u, r.p) THEN TRUE ELSE Line("RULEFAIL", r.id, r.k, ToString(l) \o "|T_IllFormedInput|0"))
        /\ bb' = [base EXCEPT !.kreqs = base.kreqs \cup Range(r.p.reqs),
                              !.knames = base.knames \cup Mentioned(r.u, r.p, 0),
                              !.cancelSeen = FALSE, !.cancelVal = 0, !.callsThisSolve = 0]
        /\ wb' = [WB0 EXCEPT !.on = r.cfg.whitebox]

Poll ==
  /\ E("poll") /\ UNCHANGED <<ctx, wb>>
  /\ bb' = IF Rec[l].fired /\ ~bb.cancelSeen
           THEN [bb EXCEPT !.cancelSeen = TRUE, !.cancelVal = Rec[l].k] ELSE bb

(***************************************************************************)
(* provider calls: at most once per solver, causal, never after a          *)
(* cancellation was observed (C09 C10 C12 C13)                             *)
(***************************************************************************)
Call ==
  /\ E("call") /\ UNCHANGED <<ctx, wb>>
  /\ LET a == Rec[l].arg IN
     IF Rec[l].kind = "deps" THEN
        /\ Check(a \notin bb.dcalls, "C09_DupDeps", a)
        /\ Check(~NoHints(u) \/ a \in Range(p.soft)
                   \/ \E r \in bb.kreqs : \E i \in DOMAIN r : a \in MatchSet(u, r[i]),
                 "C09_CausalDeps", a)
        /\ Check(~bb.cancelSeen, "C12_CallAfterCancel", <<"deps", a>>)
        /\ bb' = [bb EXCEPT !.dcalls = bb.dcalls \cup {a}, !.callsThisSolve = bb.callsThisSolve + 1]
     ELSE IF Rec[l].kind = "cands" THEN
        /\ Check(a \notin bb.ccalls, "C09_DupCands", a)
        /\ Check(~NoHints(u) \/ a \in bb.knames, "C09_CausalCands", a)
        /\ Check(~bb.cancelSeen, "C12_CallAfterCancel", <<"cands", a>>)
        /\ bb' = [bb EXCEPT !.ccalls = bb.ccalls \cup {a}, !.callsThisSolve = bb.callsThisSolve + 1]
     ELSE bb' = bb

Ret ==
  /\ E("ret") /\ UNCHANGED <<ctx, wb>>
  /\ LET a == Rec[l].arg IN
     IF Rec[l].kind = "deps" THEN
        bb' = [bb EXCEPT !.dret = bb.dret \cup {a},
                         !.kreqs = bb.kreqs \cup Range(ReqsOf(u, p, a)),
                         !.knames = bb.knames \cup Mentioned(u, p, a)]
     ELSE IF Rec[l].kind = "cands" THEN bb' = [bb EXCEPT !.cret = bb.cret \cup {a}]
     ELSE bb' = bb

\* C20: the availability query from inside sort_candidates
CacheQuery ==
  /\ E("cachequery") /\ UNCHANGED <<ctx, bb, wb>>
  /\ LET hinted == UNION {HintedOf(u, n) : n \in bb.cret} IN
     \A i \in DOMAIN Rec[l].answers :
        LET s == Rec[l].answers[i][1] ans == Rec[l].answers[i][2] IN
        Check(ans = (s \in bb.dret \/ s \in hinted), "C20_Availability", <<s, ans>>)

(***************************************************************************)
(* async runs: quiescent points (C10 no deadlock, C11 maximal issuance)    *)
(***************************************************************************)
Quiescent ==
  /\ E("quiescent") /\ UNCHANGED <<ctx, bb, wb>>
  /\ Check(Rec[l].pending # <<>>, "C10_Deadlock", 0)
  /\ Check(bb.cancelSeen \/ bb.knames \subseteq bb.ccalls, "C11_NotIssued", bb.knames \ bb.ccalls)
  /\ (IF Len(Rec[l].pending) >= 2 THEN Cover(<<"quiescent2">>) ELSE TRUE)

Skip == /\ l <= Len(Rec)
        /\ Rec[l].ev \in {"blockon", "blockdone", "complete", "skipped", "verdict", "runsat", "restart", "end"}
        /\ l' = l + 1 /\ UNCHANGED <<ctx, bb, wb>>

(***************************************************************************)
(* white-box rules on the hook stream (C01 C02 C03 C05)                    *)
(***************************************************************************)
Neg(x) == <<x[1], 1 - x[2]>>
LitSet(q) == {<<q[i][1], q[i][2]>> : i \in DOMAIN q}
Lookup(f, k) == IF \E i \in DOMAIN f : f[i][1] = k
                THEN f[CHOOSE i \in DOMAIN f : f[i][1] = k][2] ELSE -1
SolvOfVar(v) == IF v = 0 THEN 0 ELSE Lookup(wb.vsolv, v)   \* 0 = root, -1 = not a solvable
HasClause(i) == i \in DOMAIN wb.cls
AllLits == {wb.cls[i].lits : i \in DOMAIN wb.cls}

\* unit propagation over a set of literal sets; {<<-1,-1>>} = conflict
RECURSIVE UP(_, _)
UP(C, A) ==
  IF \E c \in C : \A x \in c : Neg(x) \in A THEN {<<-1, -1>>}
  ELSE LET new == {x \in UNION C : x \notin A /\ Neg(x) \notin A
                       /\ \E c \in C : x \in c /\ \A y \in c \ {x} : Neg(y) \in A}
       IN IF new = {} THEN A
          ELSE IF \E x \in new : Neg(x) \in new THEN {<<-1, -1>>}
          ELSE UP(C, A \cup new)
RUP(C, lits) == UP(C, {Neg(x) : x \in lits}) = {<<-1, -1>>}

RECURSIVE Unsat(_, _)
Unsat(C, A) ==
  LET r == UP(C, A) IN
  IF r = {<<-1, -1>>} THEN TRUE
  ELSE LET free == {x[1] : x \in UNION C} \ {x[1] : x \in r} IN
       IF free = {} THEN FALSE
       ELSE LET v == CHOOSE v \in free : TRUE IN
            Unsat(C, r \cup {<<v, 1>>}) /\ Unsat(C, r \cup {<<v, 0>>})

\* each problem clause states a true fact of the universe
TrueFact(r) ==
  LET ls == LitSet(r.lits) IN
  CASE r.kind = "root" -> ls = {<<0, 1>>}
    [] r.kind = "requires" ->
         LET par == SolvOfVar(r.a)
             pos == {y \in ls : y[2] = 1}
         IN /\ par >= 0
            /\ \E i \in DOMAIN ReqsOf(u, p, par) : ReqsOf(u, p, par)[i] = r.vs
            /\ ls = {<<r.a, 0>>} \cup pos
            /\ Len(r.cands) = Len(r.vs)
            \* per version set: exactly its matching candidates (order is judged by C07)
            /\ \A i \in DOMAIN r.vs :
                 {SolvOfVar(r.cands[i][j]) : j \in DOMAIN r.cands[i]} = MatchSet(u, r.vs[i])
            /\ {x[1] : x \in pos} = UNION {Range(r.cands[i]) : i \in DOMAIN r.cands}
    [] r.kind = "constrains" ->
         LET par == SolvOfVar(r.a) c == SolvOfVar(r.b) v == r.vs[1] IN
         /\ par >= 0 /\ c > 0
         /\ \E i \in DOMAIN ConsOf(u, p, par) : ConsOf(u, p, par)[i] = v
         /\ c \in Range(NonMatch(u, v))
         /\ ls = {<<r.a, 0>>, <<r.b, 0>>}
    [] r.kind = "forbid" ->
         LET c == SolvOfVar(r.a) IN
         /\ c > 0 /\ NameOf(u, c) = r.b
         /\ <<r.a, 0>> \in ls /\ Cardinality(ls) = 2
         /\ \A x \in ls \ {<<r.a, 0>>} : Lookup(wb.vhelp, x[1]) = r.b
    [] r.kind = "lock" ->
         LET lk == SolvOfVar(r.a) o == SolvOfVar(r.b) IN
         /\ lk > 0 /\ o > 0 /\ o # lk
         /\ u.pkg[NameOf(u, o)].locked = lk
         /\ ls = {<<0, 0>>, <<r.b, 0>>}
    [] r.kind = "excluded" ->
         LET c == SolvOfVar(r.a) IN
         /\ c > 0
         /\ (c \in Range(u.pkg[NameOf(u, c)].excluded) \/ ~u.solv[c].known)
         /\ ls = {<<r.a, 0>>}
    [] OTHER -> FALSE

Var ==
  /\ E("var") /\ UNCHANGED <<ctx, bb>>
  /\ wb' = IF Rec[l].solv # 0
           THEN [wb EXCEPT !.vsolv = Append(wb.vsolv, <<Rec[l].v, Rec[l].solv>>)]
           ELSE [wb EXCEPT !.vhelp = Append(wb.vhelp, <<Rec[l].v, Rec[l].name>>)]

ClauseEv ==
  /\ E("clause") /\ UNCHANGED <<ctx, bb>>
  /\ Check(Rec[l].id = Len(wb.cls) + 1, "T_ClauseIdNotDense", Rec[l].id)
  /\ Check(TrueFact(Rec[l]), "C03_TrueFact", Rec[l])
  /\ wb' = [wb EXCEPT !.cls = Append(wb.cls,
                [kind |-> Rec[l].kind, lits |-> LitSet(Rec[l].lits), why |-> <<>>])]

Assign ==
  /\ E("assign") /\ UNCHANGED <<ctx, bb>>
  /\ LET x == <<Rec[l].v, IF Rec[l].val THEN 1 ELSE 0>> IN
     /\ Check(x \notin wb.A /\ Neg(x) \notin wb.A, "C02_Reassigned", x)
     /\ (IF Rec[l].tag # "implied" THEN TRUE
         ELSE /\ Check(HasClause(Rec[l].why), "C02_ReasonLogged", Rec[l].why)
              /\ (IF HasClause(Rec[l].why)
                  THEN LET c == wb.cls[Rec[l].why] IN
                       Check(x \in c.lits /\ \A y \in c.lits \ {x} : Neg(y) \in wb.A,
                             "C02_ReasonIsUnit", <<Rec[l].v, Rec[l].val, Rec[l].why>>)
                  ELSE TRUE))
     /\ wb' = [wb EXCEPT !.trail = Append(wb.trail, x), !.A = wb.A \cup {x}]

Undo ==
  /\ E("undo") /\ UNCHANGED <<ctx, bb>>
  /\ Check(Rec[l].len <= Len(wb.trail), "C05_UndoNotPrefix", Rec[l].len)
  /\ LET n == IF Rec[l].len <= Len(wb.trail) THEN Rec[l].len ELSE Len(wb.trail)
         t == SubSeq(wb.trail, 1, n)
     IN wb' = [wb EXCEPT !.trail = t, !.A = Range(t)]

Learnt ==
  /\ E("learnt") /\ UNCHANGED <<ctx, bb>>
  /\ LET ls == LitSet(Rec[l].lits) IN
     /\ Check(Rec[l].id = Len(wb.cls) + 1, "T_ClauseIdNotDense", Rec[l].id)
     /\ Check(RUP(AllLits, ls), "C02_LearntRUP", Rec[l].id)
     /\ Check(\A i \in Range(Rec[l].why) : HasClause(i), "C03_WhyLogged", Rec[l].why)
     /\ Check(RUP({wb.cls[i].lits : i \in {j \in Range(Rec[l].why) : HasClause(j)}}, ls),
              "C03_LearntFromWhy", Rec[l].id)
     /\ wb' = [wb EXCEPT !.cls = Append(wb.cls,
                   [kind |-> "learnt", lits |-> ls, why |-> Rec[l].why])]

\* the clause ids the solver reports for an Unsolvable verdict
UnsatIds ==
  /\ E("unsatids") /\ UNCHANGED <<ctx, bb, wb>>
  /\ Check(UP(AllLits, {<<0, 1>>}) = {<<-1, -1>>}, "C02_RUPRefutation", 0)
  /\ Check(\A i \in Range(Rec[l].ids) : HasClause(i) /\ wb.cls[i].kind # "learnt",
           "C03_ReportedIds", Rec[l].ids)
  /\ Check(Unsat({wb.cls[i].lits : i \in {j \in Range(Rec[l].ids) : HasClause(j)}}, {<<0, 1>>}),
           "C03_ReportedUnsat", Rec[l].ids)

(***************************************************************************)
(* results                                                                 *)
(***************************************************************************)
SolvedVarsTrue == {SolvOfVar(x[1]) : x \in {y \in wb.A : y[2] = 1 /\ y[1] # 0}} \ {-1}

\* a clause holds under the final assignment (unassigned variables read as
\* false).  Lock / exclusion clauses about a directly named soft requirement are
\* exempt: the property lets such a solvable ignore its own package's lock and
\* exclusion list.
ClauseHolds(i) ==
  \/ \E x \in wb.cls[i].lits : x \in wb.A \/ (x[2] = 0 /\ <<x[1], 1>> \notin wb.A)
  \/ /\ wb.cls[i].kind \in {"lock", "excluded"}
     /\ \E x \in wb.cls[i].lits : x[1] # 0 /\ SolvOfVar(x[1]) \in Range(p.soft)

ResultSat(r) ==
  LET S    == Range(r.sol)
      X    == Range(p.soft)
      why  == WhyInvalid(u, p, S, X)
      cf   == ConflictFree(u, Hard(p))
      dbf  == DirectBestFeasible(u, p)
      ob   == SoftObliged(u, p)
      clos == PreferredClosure(u, Hard(p))
  IN
  /\ Check(~bb.cancelSeen, "C12_ResultAfterCancel", r.kind)
  /\ Check(NoDup(r.sol), "C01_DupInSolution", r.sol)
  /\ Check(why = "", "C01_" \o why, r.sol)
  /\ Check(Supported(u, p, S), "C05_Unsupported", S \ SupportedSet(u, p, S))
  /\ Check(~(cf /\ p.soft = <<>>) \/ S = clos, "C07_NotPreferred", <<r.sol, clos>>)
  /\ Check(~dbf \/ DirectBest(u, p) \subseteq S, "C08_DirectDowngraded", <<r.sol, DirectBest(u, p)>>)
  /\ Check(ob \subseteq S, "C14_SoftNotIncluded", <<r.sol, ob>>)
  /\ Check(~(cf /\ p.soft = <<>> /\ NoHints(u) /\ bb.prevSolves = 0 /\ why = "")
             \/ (/\ bb.dcalls = clos
                 /\ bb.ccalls = Mentioned(u, p, 0) \cup UNION {Mentioned(u, p, x) : x \in clos}),
           "C09_NotExactWhenClean", <<bb.dcalls, bb.ccalls, clos>>)
  \* white box: the final assignment falsifies no clause, and the solution is
  \* exactly the solvable variables assigned true
  /\ (IF wb.on
      THEN /\ Check(\A i \in DOMAIN wb.cls : ClauseHolds(i), "C01_DbNotSatisfied",
                    {i \in DOMAIN wb.cls : ~ClauseHolds(i)})
           /\ Check(SolvedVarsTrue = S, "C05_SolutionNotTrail", <<r.sol, SolvedVarsTrue>>)
      ELSE TRUE)
  /\ Cover(<<"sat">> \o (IF cf /\ p.soft = <<>> THEN <<"conflictfree">> ELSE <<>>)
                     \o (IF dbf THEN <<"directbest">> ELSE <<>>)
                     \o (IF ob # {} THEN <<"softobliged">> ELSE <<>>)
                     \o (IF p.soft # <<>> THEN <<"soft">> ELSE <<>>)
                     \o (IF cf /\ p.soft = <<>> /\ NoHints(u) /\ bb.prevSolves = 0 THEN <<"exactcalls">> ELSE <<>>)
                     \o (IF bb.prevSolves > 0 THEN <<"reused">> ELSE <<>>)
                     \o (IF bb.prevSolves > 0 /\ bb.callsThisSolve = 0 THEN <<"reused_nocalls">> ELSE <<>>)
                     \o (IF wb.on /\ \E i \in DOMAIN wb.cls : wb.cls[i].kind = "learnt" THEN <<"learnt">> ELSE <<>>))

ResultUnsat(r) ==
  LET G == r.graph
      small == SearchSpace(u) <= OracleBound
  IN
  /\ Check(~bb.cancelSeen, "C12_ResultAfterCancel", r.kind)
  /\ Check(~small \/ ~Satisfiable(u, p), "C02_UnsatButSatisfiable", 0)
  /\ Check(NodesDistinct(G), "C03_NodesNotDistinct", 0)
  /\ Check(\A e \in DOMAIN G.edges : EdgeTrue(u, p, G, e), "C03_EdgeFalse",
           {e \in DOMAIN G.edges : ~EdgeTrue(u, p, G, e)})
  /\ Check(\A g \in ReqGroups(G) : GroupExact(u, G, g), "C03_GroupNotExact",
           {g \in ReqGroups(G) : ~GroupExact(u, G, g)})
  /\ Check(Reachable(G), "C03_Unreachable", 0)
  /\ Check(Refutes(u, G), "C03_NotSelfContained", 0)
  /\ Check(~ctx.cfg.render \/ RenderOK(G, r.lines), "C04_RenderTooLong", <<r.lines, Len(G.edges)>>)
  /\ Cover(<<"unsat">> \o (IF small THEN <<"oracle">> ELSE <<>>)
                       \o (IF Cardinality(SolvNodes(G)) >= 4 THEN <<"graph4">> ELSE <<>>)
                       \o (IF p.soft # <<>> THEN <<"soft">> ELSE <<>>)
                       \o (IF bb.prevSolves > 0 THEN <<"reused">> ELSE <<>>)
                       \o (IF wb.on /\ \E i \in DOMAIN wb.cls : wb.cls[i].kind = "learnt" THEN <<"learnt">> ELSE <<>>))

ResultCancelled(r) ==
  /\ Check(bb.cancelSeen, "C12_SpuriousCancel", r.v)
  /\ Check(~bb.cancelSeen \/ r.v = bb.cancelVal, "C12_CancelValue", <<r.v, bb.cancelVal>>)
  /\ Cover(<<"cancelled">> \o (IF bb.callsThisSolve > 0 THEN <<"cancel_after_calls">> ELSE <<>>))

Result ==
  /\ E("result") /\ UNCHANGED <<ctx, bb, wb>>
  /\ LET r == Rec[l] IN
     CASE r.kind = "sat" -> ResultSat(r)
       [] r.kind = "unsat" -> ResultUnsat(r)
       [] r.kind = "cancelled" -> ResultCancelled(r)
       [] r.kind = "panic" -> Fail("C04_Panic", <<r.phase, r.site, r.msg>>)
       [] r.kind = "deadlock" -> Fail("C10_Deadlock", <<r.phase>>)
       [] r.kind = "timeout" -> Fail("C04_Timeout", <<r.phase>>)
       [] r.kind = "crash" -> Fail("C04_Crash", <<r.phase>>)
       [] OTHER -> Fail("T_UnknownResult", r.kind)

Next == \/ Begin \/ Poll \/ Call \/ Ret \/ CacheQuery \/ Quiescent \/ Skip
        \/ Var \/ ClauseEv \/ Assign \/ Undo \/ Learnt \/ UnsatIds \/ Result

Spec == Init /\ [][Next]_vars

\* every line of the file was consumed (a format / hook-stream problem otherwise)
Accepted ==
  IF TLCGet("stats").diameter - 1 = Len(Rec) THEN TRUE
  ELSE PrintT("NOTCONSUMED|" \o ToString(TLCGet("stats").diameter) \o "|" \o ToString(Len(Rec))) /\ FALSE
=============================================================================
