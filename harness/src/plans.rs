//! Case plans: which universes, problems and configurations a check runs.

use std::io::Write;

use crate::gen::*;
use crate::model::*;
use crate::rng::Rng;
use crate::{get_arg, has_flag};

fn emit(out: &mut dyn Write, c: &Case) {
    writeln!(out, "{}", serde_json::to_string(c).unwrap()).unwrap();
}

pub fn cases_cmd(args: &[String]) {
    let plan = get_arg(args, "--plan").expect("--plan");
    let n: u64 = get_arg(args, "--n").map(|s| s.parse().unwrap()).unwrap_or(100);
    let seed: u64 = get_arg(args, "--seed").map(|s| s.parse().unwrap()).unwrap_or(1);
    let out_path = get_arg(args, "--out").expect("--out");
    let variants = get_arg(args, "--variants").unwrap_or_default();
    let whitebox = has_flag(args, "--whitebox");
    let render = !has_flag(args, "--no-render");
    let mut out = std::io::BufWriter::new(std::fs::File::create(&out_path).unwrap());
    let vs: Vec<&str> = variants.split(',').filter(|s| !s.is_empty()).collect();
    let has = |v: &str| vs.contains(&v);
    let mut next_id = get_arg(args, "--first-id").map(|s| s.parse().unwrap()).unwrap_or(1u64);
    let mut id = || {
        let i = next_id;
        next_id += 1;
        i
    };
    let base_cfg = Cfg {
        whitebox,
        render,
        ..Cfg::default()
    };

    let (kind, rest) = plan.split_once(':').unwrap_or((plan.as_str(), ""));
    match kind {
        "solve" => {
            for prof in rest.split(',') {
                let g = GenParams::profile(prof);
                let mut rng = Rng::new(seed ^ crate::plans::hash(prof));
                for _ in 0..n {
                    let mut r = rng.fork();
                    let (u, p) = gen_universe(&mut r, &g);
                    let gid = id();
                    let mk = |u: &Universe, cfg: Cfg, tag: &str, i: u64| Case {
                        id: i,
                        profile: format!("{prof}{tag}"),
                        u: u.clone(),
                        ps: vec![p.clone()],
                        cfg: Cfg {
                            group: gid,
                            same: if i == gid { String::new() } else { "verdict".into() },
                            ..cfg
                        },
                    };
                    let u = if has("cppx") { crate::cppexport::cpp_expressible(&u) } else { u };
                    emit(&mut out, &mk(&u, base_cfg.clone(), "", gid));
                    if has("hints") {
                        for m in ["none", "all", "some"] {
                            let uh = with_hints(&mut r, &u, m);
                            if uh != u {
                                emit(&mut out, &mk(&uh, base_cfg.clone(), &format!("+h{m}"), id()));
                            }
                        }
                    }
                    if has("perm") {
                        let up = permute_cands(&mut r, &u);
                        emit(&mut out, &mk(&up, base_cfg.clone(), "+perm", id()));
                    }
                    if has("renum") {
                        let ur = renumber_ids(&mut r, &u, false);
                        emit(&mut out, &mk(&ur, base_cfg.clone(), "+renum", id()));
                    }
                    if has("sparse") {
                        let ur = renumber_ids(&mut r, &u, true);
                        emit(&mut out, &mk(&ur, base_cfg.clone(), "+sparse", id()));
                    }
                    if has("act") {
                        for (a, d) in [(0u32, 100u32), (500, 50), (100, 0)] {
                            let cfg = Cfg {
                                act_add: a,
                                act_decay: d,
                                ..base_cfg.clone()
                            };
                            emit(&mut out, &mk(&u, cfg, &format!("+act{a}_{d}"), id()));
                        }
                    }
                    if has("async") {
                        for m in ["fifo", "lifo", "rand"] {
                            let cfg = Cfg {
                                mode: m.into(),
                                sched_seed: r.next() % 1_000_000,
                                ..base_cfg.clone()
                            };
                            emit(&mut out, &mk(&u, cfg, &format!("+{m}"), id()));
                        }
                    }
                    if has("asynchints") {
                        let uh = with_hints(&mut r, &u, "some");
                        let cfg = Cfg {
                            mode: "rand".into(),
                            sched_seed: r.next() % 1_000_000,
                            ..base_cfg.clone()
                        };
                        emit(&mut out, &mk(&uh, cfg, "+hsome+rand", id()));
                    }
                    if has("reenter") {
                        let cfg = Cfg {
                            reenter: true,
                            ..base_cfg.clone()
                        };
                        emit(&mut out, &mk(&u, cfg, "+reenter", id()));
                    }
                }
            }
        }
        "synth" => {
            // C04: conflict graphs assembled from the facts of a universe (synth.rs)
            for prof in rest.split(',') {
                let g = GenParams::profile(prof);
                let mut rng = Rng::new(seed ^ crate::plans::hash(prof) ^ 0x5E);
                for _ in 0..n {
                    let mut r = rng.fork();
                    let (u, p) = gen_universe(&mut r, &g);
                    for _ in 0..3 {
                        emit(
                            &mut out,
                            &Case {
                                id: id(),
                                profile: format!("synth-{prof}"),
                                u: u.clone(),
                                ps: vec![p.clone()],
                                cfg: Cfg { mode: "synth".into(), sched_seed: r.next() % 1_000_000, ..base_cfg.clone() },
                            },
                        );
                    }
                }
            }
        }
        "template" => {
            let mut rng = Rng::new(seed ^ hash(rest) ^ 0x7E3);
            for _ in 0..n {
                let mut r = rng.fork();
                let (u, p) = match rest {
                    "direct" => gen_direct_template(&mut r),
                    _ => panic!("unknown template {rest}"),
                };
                for (a, d) in [(100u32, 95u32), (0, 100), (500, 50)] {
                    emit(
                        &mut out,
                        &Case {
                            id: id(),
                            profile: format!("template-{rest}+act{a}_{d}"),
                            u: u.clone(),
                            ps: vec![p.clone()],
                            cfg: Cfg { act_add: a, act_decay: d, ..base_cfg.clone() },
                        },
                    );
                }
            }
        }
        "repeat" => {
            // C06: the same case several times in one process (fresh solver each
            // time); the driver additionally runs the file in separate processes
            let reps: u64 = get_arg(args, "--reps").map(|s| s.parse().unwrap()).unwrap_or(4);
            for prof in rest.split(',') {
                let g = GenParams::profile(prof);
                let mut rng = Rng::new(seed ^ hash(prof) ^ 0xDE7E);
                for _ in 0..n {
                    let mut r = rng.fork();
                    let (u, p) = gen_universe(&mut r, &g);
                    let gid = id();
                    for k in 0..reps {
                        emit(
                            &mut out,
                            &Case {
                                id: if k == 0 { gid } else { id() },
                                profile: format!("{prof}+rep{k}"),
                                u: u.clone(),
                                ps: vec![p.clone()],
                                cfg: Cfg {
                                    group: gid,
                                    same: if k == 0 { String::new() } else { "exact".into() },
                                    ..base_cfg.clone()
                                },
                            },
                        );
                    }
                }
            }
        }
        "history" => {
            for prof in rest.split(',') {
                let g = GenParams::profile(prof);
                let mut rng = Rng::new(seed ^ hash(prof) ^ 0x1157);
                for _ in 0..n {
                    let mut r = rng.fork();
                    let (u, p) = gen_universe(&mut r, &g);
                    let mut ps = vec![p.clone()];
                    let extra = r.range(1, 3);
                    for _ in 0..extra {
                        if r.chance(0.3) {
                            ps.push(p.clone());
                        } else {
                            ps.push(gen_problem(&mut r, &u, g.soft));
                        }
                    }
                    let modes = if has("async") { vec!["sync", "fifo", "rand"] } else { vec!["sync"] };
                    for m in modes {
                        let cfg = Cfg {
                            mode: m.into(),
                            sched_seed: r.next() % 1_000_000,
                            ..base_cfg.clone()
                        };
                        emit(
                            &mut out,
                            &Case {
                                id: id(),
                                profile: format!("{prof}+hist+{m}"),
                                u: u.clone(),
                                ps: ps.clone(),
                                cfg,
                            },
                        );
                    }
                }
            }
        }
        "cancel" => {
            // for each base case: dry run to count polls, then one case per
            // poll index (sticky and transient), followed by a second solve
            // of the same problem on the same solver (C12 + C13)
            let max_k: u32 = get_arg(args, "--max-k").map(|s| s.parse().unwrap()).unwrap_or(60);
            for prof in rest.split(',') {
                let g = GenParams::profile(prof);
                let mut rng = Rng::new(seed ^ hash(prof) ^ 0xCA7CE1);
                for _ in 0..n {
                    let mut r = rng.fork();
                    let (u, p) = gen_universe(&mut r, &g);
                    // "fifo2" / "lifo2": the provider's get_candidates suspends twice
                    let modes = if has("async") { vec!["sync", "fifo", "lifo", "fifo2", "lifo2", "rand2"] } else { vec!["sync"] };
                    for m in modes {
                        let cfg0 = Cfg {
                            mode: m.into(),
                            render: false,
                            ..base_cfg.clone()
                        };
                        let dry = Case {
                            id: 0,
                            profile: "dry".into(),
                            u: u.clone(),
                            ps: vec![p.clone()],
                            cfg: Cfg { whitebox: false, ..cfg0.clone() },
                        };
                        let o = std::panic::catch_unwind(|| crate::run::run_case(&dry));
                        let Ok(o) = o else { continue };
                        let polls = o.lines.iter().filter(|l| l["ev"] == "poll").count() as u32;
                        // the never-firing reference run
                        emit(&mut out, &Case { id: id(), profile: format!("{prof}+nocancel+{m}"), u: u.clone(), ps: vec![p.clone()], cfg: cfg0.clone() });
                        let ks: Vec<u32> = if polls <= max_k {
                            (1..=polls).collect()
                        } else {
                            (0..max_k).map(|i| 1 + i * polls / max_k).collect()
                        };
                        for k in ks {
                            for sticky in [true, false] {
                                let cfg = Cfg {
                                    cancel_at: k,
                                    cancel_sticky: sticky,
                                    ..cfg0.clone()
                                };
                                emit(
                                    &mut out,
                                    &Case {
                                        id: id(),
                                        profile: format!("{prof}+cancel+{m}"),
                                        u: u.clone(),
                                        ps: vec![p.clone(), p.clone()],
                                        cfg,
                                    },
                                );
                            }
                        }
                    }
                }
            }
        }
        "cancelrender" => {
            // a cancellation request that arrives only AFTER solve has returned (sticky from
            // the first poll the solve itself does not make): whatever conflict rendering
            // asks of the provider then must not make it panic or hang (C04)
            for prof in rest.split(',') {
                let g = GenParams::profile(prof);
                let mut rng = Rng::new(seed ^ hash(prof) ^ 0xCA7C33);
                for _ in 0..n {
                    let mut r = rng.fork();
                    let (u, p) = gen_universe(&mut r, &g);
                    let cfg0 = Cfg { mode: "sync".into(), render: true, ..base_cfg.clone() };
                    let dry = Case {
                        id: 0,
                        profile: "dry".into(),
                        u: u.clone(),
                        ps: vec![p.clone()],
                        cfg: Cfg { whitebox: false, render: false, ..cfg0.clone() },
                    };
                    let o = std::panic::catch_unwind(|| crate::run::run_case(&dry));
                    let Ok(o) = o else { continue };
                    // polls made by solve itself: those before it returned (`verdict`)
                    let polls = o.lines.iter().take_while(|l| l["ev"] != "verdict").filter(|l| l["ev"] == "poll").count() as u32;
                    let cfg = Cfg { cancel_at: polls + 1, cancel_sticky: true, ..cfg0.clone() };
                    emit(&mut out, &Case { id: id(), profile: format!("{prof}+cancelrender"), u: u.clone(), ps: vec![p.clone()], cfg });
                }
            }
        }
        "widealt" => {
            let ns: Vec<u32> = rest.split(',').filter(|s| !s.is_empty()).map(|s| s.parse().unwrap()).collect();
            let mut rng = Rng::new(seed ^ 0xA17);
            let reps: u32 = get_arg(args, "--pairs").map(|s| s.parse().unwrap()).unwrap_or(60);
            for &nn in &ns {
                for _ in 0..reps {
                    let k = rng.range(2, 3);
                    let alts: Vec<(Vec<u32>, Vec<u32>)> = (0..k)
                        .map(|_| {
                            let group: Vec<u32> = if rng.chance(0.6) {
                                (1..=nn).filter(|_| rng.chance(0.4)).collect()
                            } else {
                                vec![]
                            };
                            let nw = rng.range(0, 2);
                            let wants: Vec<u32> = (0..nw).map(|_| rng.range(1, nn)).collect();
                            (group, wants)
                        })
                        .collect();
                    let (u, p) = wide_alt_universe(nn, &alts, &mut rng);
                    emit(
                        &mut out,
                        &Case {
                            id: id(),
                            profile: format!("widealt{nn}"),
                            u,
                            ps: vec![p],
                            cfg: Cfg { render: false, ..base_cfg.clone() },
                        },
                    );
                }
            }
        }
        "widechain" => {
            let ns: Vec<u32> = rest.split(',').filter(|s| !s.is_empty()).map(|s| s.parse().unwrap()).collect();
            let mut rng = Rng::new(seed ^ 0xC4A1);
            let reps: u32 = get_arg(args, "--pairs").map(|s| s.parse().unwrap()).unwrap_or(20);
            for &nn in &ns {
                for _ in 0..reps {
                    let i = rng.range(1, nn);
                    let mut j = rng.range(1, nn);
                    if nn > 1 {
                        while j == i {
                            j = rng.range(1, nn);
                        }
                    }
                    let k = rng.range(2, 4) as usize;
                    // half of the time i and j are known from the start, otherwise they (and
                    // everything else) are revealed whenever a group happens to list them
                    let early = rng.chance(0.5);
                    let groups: Vec<Vec<u32>> = (0..k)
                        .map(|gi| {
                            let mut g: Vec<u32> = (1..=nn).filter(|_| rng.chance(0.5)).collect();
                            if early || gi + 1 == k {
                                g.push(i);
                                g.push(j);
                            }
                            g
                        })
                        .collect();
                    for want in [vec![i, j], vec![i], vec![j], vec![]] {
                        let (mut u, p) = wide_chain_universe(nn, &groups, &want);
                        // the preference order over the wide package varies
                        rng.shuffle(&mut u.pkg[0].rank);
                        emit(
                            &mut out,
                            &Case {
                                id: id(),
                                profile: format!("widechain{nn}"),
                                u,
                                ps: vec![p],
                                cfg: Cfg { render: false, ..base_cfg.clone() },
                            },
                        );
                    }
                }
            }
        }
        "wide" => {
            // C15: n candidates, pairs (i, j), discovery partitions
            let ns: Vec<u32> = rest.split(',').filter(|s| !s.is_empty()).map(|s| s.parse().unwrap()).collect();
            let mut rng = Rng::new(seed ^ 0x71DE);
            let pairs_cap: usize = get_arg(args, "--pairs").map(|s| s.parse().unwrap()).unwrap_or(usize::MAX);
            for &nn in &ns {
                let mut pairs: Vec<(u32, u32)> = Vec::new();
                for i in 1..=nn {
                    for j in (i + 1)..=nn {
                        pairs.push((i, j));
                    }
                }
                if pairs.len() > pairs_cap {
                    // keep the boundary pairs, sample the rest
                    let mut keep: Vec<(u32, u32)> = pairs
                        .iter()
                        .copied()
                        .filter(|&(i, j)| i == 1 || j == nn || j == i + 1 && (i & (i - 1)) == 0)
                        .collect();
                    rng.shuffle(&mut pairs);
                    for p in pairs.iter() {
                        if keep.len() >= pairs_cap {
                            break;
                        }
                        if !keep.contains(p) {
                            keep.push(*p);
                        }
                    }
                    keep.truncate(pairs_cap.max(1));
                    pairs = keep;
                }
                for (i, j) in pairs {
                    // discovery orders: ascending in one group; descending singletons
                    // (so the tracker sees them in another order); random 2-3 groups
                    let all: Vec<u32> = (1..=nn).collect();
                    let mut orders: Vec<Vec<Vec<u32>>> = vec![vec![all.clone()]];
                    let mut sh = all.clone();
                    rng.shuffle(&mut sh);
                    let cut = rng.range(1, nn.max(2) - 1) as usize;
                    orders.push(vec![sh[..cut.min(sh.len())].to_vec(), sh[cut.min(sh.len())..].to_vec()]);
                    let mut sh2 = all.clone();
                    rng.shuffle(&mut sh2);
                    let third = (sh2.len() / 3).max(1);
                    let g3: Vec<Vec<u32>> = sh2.chunks(third).map(|c| c.to_vec()).collect();
                    orders.push(g3);
                    for groups in orders {
                        let groups: Vec<Vec<u32>> = groups.into_iter().filter(|g| !g.is_empty()).collect();
                        for want in [vec![i, j], vec![i], vec![j]] {
                            let (u, p) = wide_universe(nn, &groups, &want);
                            emit(
                                &mut out,
                                &Case {
                                    id: id(),
                                    profile: format!("wide{nn}"),
                                    u,
                                    ps: vec![p],
                                    cfg: Cfg { render: false, ..base_cfg.clone() },
                                },
                            );
                        }
                    }
                }
            }
        }
        _ => panic!("unknown plan {plan}"),
    }
    out.flush().unwrap();
}

pub fn hash(s: &str) -> u64 {
    let mut h = 0xcbf29ce484222325u64;
    for b in s.bytes() {
        h ^= b as u64;
        h = h.wrapping_mul(0x100000001b3);
    }
    h
}

/// C10: stateless depth-first enumeration of ALL completion orders of a case.
/// Every execution is re-run from the start with a prefix of choices (FIFO
/// after the prefix); the widths of the quiescent points it met tell which
/// alternatives remain.  Each execution becomes one run of the output trace;
/// all runs of a case form one comparison group (same verdict).
pub fn explore_cmd(args: &[String]) {
    let cases = crate::read_cases(&get_arg(args, "--cases").expect("--cases"));
    let out_path = get_arg(args, "--out").expect("--out");
    let max: usize = get_arg(args, "--max-schedules").map(|s| s.parse().unwrap()).unwrap_or(2000);
    crate::run::install_panic_hook();
    let mut out = std::io::BufWriter::new(std::fs::File::create(&out_path).unwrap());
    let mut summary = Vec::new();
    for case in &cases {
        let mut stack: Vec<Vec<u32>> = vec![vec![]];
        let mut done = 0usize;
        let mut truncated = false;
        // the synchronous run is the reference of the group
        let sync_case = Case {
            cfg: Cfg { mode: "sync".into(), group: case.id, same: String::new(), ..case.cfg.clone() },
            ..case.clone()
        };
        for l in crate::run::run_case(&sync_case).lines {
            writeln!(out, "{l}").unwrap();
        }
        while let Some(prefix) = stack.pop() {
            if done >= max {
                truncated = true;
                break;
            }
            let c = Case {
                id: case.id * 10000 + done as u64 + 1,
                profile: format!("{}+sched", case.profile),
                cfg: Cfg {
                    mode: "prefix".into(),
                    prefix: prefix.clone(),
                    group: case.id,
                    same: "verdict".into(),
                    render: false,
                    ..case.cfg.clone()
                },
                ..case.clone()
            };
            let o = crate::run::run_case(&c);
            done += 1;
            for l in &o.lines {
                writeln!(out, "{l}").unwrap();
            }
            // alternatives at and beyond the end of the prefix
            let mut executed = prefix.clone();
            for i in prefix.len()..o.widths.len() {
                for alt in 1..o.widths[i] {
                    let mut p = executed.clone();
                    p.push(alt);
                    stack.push(p);
                }
                executed.push(0);
            }
        }
        summary.push(serde_json::json!({"case": case.id, "schedules": done, "exhaustive": !truncated}));
    }
    out.flush().unwrap();
    std::fs::write(format!("{out_path}.summary"), serde_json::to_string(&summary).unwrap()).unwrap();
}
