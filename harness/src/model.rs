//! Wire format shared by the harness, the TLA+ specifications and the C++
//! driver. All ids are 1-based; 0 means "none". Every field has one JSON type in
//! every record (TLC cannot compare values of different types).

use serde::{Deserialize, Serialize};

#[derive(Clone, Debug, Serialize, Deserialize, PartialEq)]
pub struct Hint {
    /// "none" | "all" | "some"
    pub mode: String,
    pub list: Vec<u32>,
}

impl Default for Hint {
    fn default() -> Self {
        Hint {
            mode: "none".into(),
            list: vec![],
        }
    }
}

#[derive(Clone, Debug, Serialize, Deserialize, Default, PartialEq)]
pub struct Pkg {
    /// false: `get_candidates` returns `None`
    pub exists: bool,
    /// candidate list as returned by `get_candidates`
    pub cands: Vec<u32>,
    /// the provider's preference order: a permutation of `cands`
    pub rank: Vec<u32>,
    pub favored: u32,
    pub locked: u32,
    pub excluded: Vec<u32>,
    pub hint: Hint,
}

#[derive(Clone, Debug, Serialize, Deserialize, Default, PartialEq)]
pub struct Solv {
    pub name: u32,
    /// false: `get_dependencies` returns `Unknown`
    pub known: bool,
    /// each requirement is a non-empty sequence of version sets (len 1 = Single)
    pub reqs: Vec<Vec<u32>>,
    pub cons: Vec<u32>,
}

#[derive(Clone, Debug, Serialize, Deserialize, Default, PartialEq)]
pub struct Vs {
    pub name: u32,
    /// sorted set of matching solvables (as `filter_candidates` decides)
    #[serde(rename = "match")]
    pub matching: Vec<u32>,
}

/// Optional mapping from wire ids to the ids the provider hands to resolvo.
/// Empty vectors mean the identity mapping (wire id - 1).
#[derive(Clone, Debug, Serialize, Deserialize, Default, PartialEq)]
pub struct IdMap {
    pub solv: Vec<u32>,
    pub name: Vec<u32>,
    pub vs: Vec<u32>,
}

#[derive(Clone, Debug, Serialize, Deserialize, Default, PartialEq)]
pub struct Universe {
    pub pkg: Vec<Pkg>,
    pub solv: Vec<Solv>,
    pub vs: Vec<Vs>,
    #[serde(default)]
    pub idmap: IdMap,
}

#[derive(Clone, Debug, Serialize, Deserialize, Default, PartialEq)]
pub struct Problem {
    pub reqs: Vec<Vec<u32>>,
    pub cons: Vec<u32>,
    pub soft: Vec<u32>,
}

#[derive(Clone, Debug, Serialize, Deserialize, PartialEq)]
pub struct Cfg {
    /// "sync" | "fifo" | "lifo" | "rand" | "prefix"
    pub mode: String,
    /// seed for "rand", ignored otherwise
    pub sched_seed: u64,
    /// for "prefix": choice indices at successive quiescent points, FIFO afterwards
    pub prefix: Vec<u32>,
    /// cancellation: fire at poll index `cancel_at` (1-based; 0 = never)
    pub cancel_at: u32,
    /// keep returning Some after the first firing
    pub cancel_sticky: bool,
    /// which solve of the history (1-based) cancellation applies to
    pub cancel_solve: u32,
    /// activity parameters as integers scaled by 100 (add, decay)
    pub act_add: u32,
    pub act_decay: u32,
    /// record solver-internal steps (hooks)
    pub whitebox: bool,
    /// render graph / message / graphviz on Unsolvable
    pub render: bool,
    /// sort_candidates re-enters the cache (C20)
    pub reenter: bool,
    /// runs with the same non-zero group are adjacent in a trace and are compared
    pub group: u64,
    /// "" | "verdict" (same verdict as the previous run of the group) |
    /// "exact" (same solution sequence, message and provider call sequence)
    pub same: String,
}

impl Default for Cfg {
    fn default() -> Self {
        Cfg {
            mode: "sync".into(),
            sched_seed: 0,
            prefix: vec![],
            cancel_at: 0,
            cancel_sticky: false,
            cancel_solve: 1,
            act_add: 100,
            act_decay: 95,
            whitebox: false,
            render: true,
            reenter: false,
            group: 0,
            same: String::new(),
        }
    }
}

/// One case: a universe, a history of problems solved on ONE solver, and a
/// configuration.
#[derive(Clone, Debug, Serialize, Deserialize, PartialEq)]
pub struct Case {
    pub id: u64,
    pub profile: String,
    pub u: Universe,
    pub ps: Vec<Problem>,
    pub cfg: Cfg,
}

impl Universe {
    pub fn n_pkgs(&self) -> usize {
        self.pkg.len()
    }
    pub fn n_solvs(&self) -> usize {
        self.solv.len()
    }
    /// product over packages of (|cands|+1): size of the brute-force selection space
    pub fn selection_space(&self) -> f64 {
        self.pkg
            .iter()
            .map(|p| if p.exists { p.cands.len() as f64 + 1.0 } else { 1.0 })
            .product()
    }
}
