#![allow(dead_code)]
mod gen;
mod hooks;
mod model;
mod plans;
mod provider;
mod replay;
mod rng;
mod run;
mod snap;
mod synth;
mod cppexport;
mod targets;

use std::{
    fs::{File, OpenOptions},
    io::{BufRead, BufReader, BufWriter, Write},
    process::Command,
    sync::{Arc, Mutex},
    time::{Duration, Instant},
};

use model::Case;
use serde_json::{json, Value};

fn arg(args: &[String], name: &str) -> Option<String> {
    args.iter()
        .position(|a| a == name)
        .and_then(|i| args.get(i + 1).cloned())
}

fn flag(args: &[String], name: &str) -> bool {
    args.iter().any(|a| a == name)
}

fn read_cases(path: &str) -> Vec<Case> {
    let f = BufReader::new(File::open(path).expect("cases file"));
    f.lines()
        .map(|l| l.unwrap())
        .filter(|l| !l.trim().is_empty())
        .map(|l| serde_json::from_str(&l).expect("case json"))
        .collect()
}

fn stub_result(kind: &str) -> Value {
    json!({"ev":"result","kind":kind,"phase":"solve","site":"","msg":"",
        "sol":[],"v":0,"graph":{"nodes":[],"edges":[],"root":0},"lines":0,"msglen":0,"dot":0,"dots":0})
}

fn begin_of(case: &Case) -> Value {
    json!({"ev":"begin","id":case.id,"k":1,"fresh":true,"profile":case.profile,
        "u":case.u,"p":case.ps[0],"cfg":case.cfg})
}

/// Child: runs cases [from..] sequentially, appending complete case traces to
/// the output file. A watchdog thread ends the process (exit 3) when one case
/// exceeds the time limit, after writing a `timeout` result for it.
fn run_child(args: &[String]) {
    let cases = read_cases(&arg(args, "--cases").unwrap());
    let out_path = arg(args, "--out").unwrap();
    let from: usize = arg(args, "--from").map(|s| s.parse().unwrap()).unwrap_or(0);
    let timeout_ms: u64 = arg(args, "--timeout-ms")
        .map(|s| s.parse().unwrap())
        .unwrap_or(30_000);
    let mem_mb: u64 = arg(args, "--mem-mb").map(|s| s.parse().unwrap()).unwrap_or(1024);
    unsafe {
        let lim = libc::rlimit {
            rlim_cur: mem_mb * 1024 * 1024,
            rlim_max: mem_mb * 1024 * 1024,
        };
        libc::setrlimit(libc::RLIMIT_AS, &lim);
    }
    let out = Arc::new(Mutex::new(BufWriter::new(
        OpenOptions::new().append(true).create(true).open(&out_path).unwrap(),
    )));
    let progress_path = format!("{out_path}.progress");
    // (deadline, begin line of the running case)
    let current: Arc<Mutex<Option<(Instant, String)>>> = Arc::new(Mutex::new(None));
    {
        let current = current.clone();
        let out = out.clone();
        std::thread::spawn(move || loop {
            std::thread::sleep(Duration::from_millis(200));
            let g = current.lock().unwrap();
            if let Some((deadline, begin)) = &*g {
                if Instant::now() > *deadline {
                    let mut w = out.lock().unwrap();
                    let _ = writeln!(w, "{begin}");
                    let _ = writeln!(w, "{}", stub_result("timeout"));
                    let _ = writeln!(w, "{}", json!({"ev":"end"}));
                    let _ = w.flush();
                    unsafe { libc::_exit(3) };
                }
            }
        });
    }
    run::install_panic_hook();
    for (i, case) in cases.iter().enumerate().skip(from) {
        std::fs::write(&progress_path, format!("{i}")).unwrap();
        *current.lock().unwrap() = Some((
            Instant::now() + Duration::from_millis(timeout_ms),
            begin_of(case).to_string(),
        ));
        let o = run::run_case(case);
        *current.lock().unwrap() = None;
        let mut w = out.lock().unwrap();
        for l in &o.lines {
            writeln!(w, "{l}").unwrap();
        }
        w.flush().unwrap();
    }
    std::fs::write(&progress_path, format!("{}", cases.len())).unwrap();
}

/// Supervisor: restarts the child after a timeout / crash, recording the case
/// that died.
fn run_supervised(args: &[String]) {
    let cases_path = arg(args, "--cases").unwrap();
    let out_path = arg(args, "--out").unwrap();
    let cases = read_cases(&cases_path);
    let _ = std::fs::remove_file(&out_path);
    let progress_path = format!("{out_path}.progress");
    let exe = std::env::current_exe().unwrap();
    let mut from = 0usize;
    let mut restarts = 0;
    while from < cases.len() {
        let mut cmd = Command::new(&exe);
        cmd.arg("run-child")
            .arg("--cases")
            .arg(&cases_path)
            .arg("--out")
            .arg(&out_path)
            .arg("--from")
            .arg(from.to_string());
        for k in ["--timeout-ms", "--mem-mb"] {
            if let Some(v) = arg(args, k) {
                cmd.arg(k).arg(v);
            }
        }
        let status = cmd.status().expect("spawn child");
        let prog: usize = std::fs::read_to_string(&progress_path)
            .ok()
            .and_then(|s| s.trim().parse().ok())
            .unwrap_or(from);
        if status.success() {
            break;
        }
        restarts += 1;
        if status.code() == Some(3) {
            // watchdog wrote the timeout lines itself
            from = prog + 1;
        } else {
            // crash (abort, segfault, out of memory)
            let mut w = OpenOptions::new().append(true).create(true).open(&out_path).unwrap();
            if prog < cases.len() {
                writeln!(w, "{}", begin_of(&cases[prog])).unwrap();
                writeln!(w, "{}", stub_result("crash")).unwrap();
                writeln!(w, "{}", json!({"ev":"end"})).unwrap();
            }
            from = prog + 1;
        }
        if restarts > 200 {
            eprintln!("too many restarts");
            std::process::exit(2);
        }
    }
    let _ = std::fs::remove_file(&progress_path);
}

fn main() {
    let args: Vec<String> = std::env::args().collect();
    let cmd = args.get(1).map(|s| s.as_str()).unwrap_or("");
    match cmd {
        "cases" => plans::cases_cmd(&args),
        "run" => run_supervised(&args),
        "run-child" => run_child(&args),
        "explore" => plans::explore_cmd(&args),
        "replay" => replay::replay_cmd(&args),
        "snap" => snap::snap_cmd(&args),
        "cpp-export" => cppexport::export_cmd(&args),
        "mapping-histories" => targets::mapping_histories(&args),
        "pool-histories" => targets::pool_histories(&args),
        "amo-dump" => targets::amo_dump(&args),
        _ => {
            eprintln!("usage: vh cases|run|explore|replay ...");
            std::process::exit(2);
        }
    }
}

#[allow(dead_code)]
pub(crate) fn has_flag(args: &[String], name: &str) -> bool {
    flag(args, name)
}
#[allow(dead_code)]
pub(crate) fn get_arg(args: &[String], name: &str) -> Option<String> {
    arg(args, name)
}
