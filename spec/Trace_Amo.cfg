SPECIFICATION Spec
POSTCONDITION Accepted
CHECK_DEADLOCK FALSE
