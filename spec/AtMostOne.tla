----------------------------- MODULE AtMostOne -----------------------------
(***************************************************************************)
(* C15: the incremental binary at-most-one encoding                        *)
(* (src/solver/binary_encoding.rs, AtMostOnceTracker::add).                *)
(*                                                                         *)
(* The i-th registered candidate (i = 0, 1, ..) gets one clause per helper *)
(* variable b:  (~x_i \/ h_b)  if bit b of i is 1,  (~x_i \/ ~h_b)  if 0.  *)
(* Helper variables are added while  n > 2^h - 1, at which point clauses   *)
(* for bit h are added for all candidates registered so far.               *)
(***************************************************************************)
EXTENDS Integers, Sequences, FiniteSets

CONSTANT MaxN

VARIABLES n,        \* number of registered candidates
          helpers,  \* number of helper variables
          cls       \* set of <<candidate index, bit, polarity>>
vars == <<n, helpers, cls>>

BitOf(i, b) == (i \div (2 ^ b)) % 2 = 1

Init == n = 0 /\ helpers = 0 /\ cls = {}

\* helper count after growing for `m` existing candidates
RECURSIVE GrowTo(_, _)
GrowTo(m, hs) == IF m > 2 ^ hs - 1 THEN GrowTo(m, hs + 1) ELSE hs

Add ==
  /\ n < MaxN
  /\ IF n = 0 THEN n' = 1 /\ UNCHANGED <<helpers, cls>>
     ELSE LET hs2 == GrowTo(n, helpers)
              grown == {<<i, b, BitOf(i, b)>> : i \in 0..(n - 1), b \in helpers..(hs2 - 1)}
              own == {<<n, b, BitOf(n, b)>> : b \in 0..(hs2 - 1)}
          IN /\ n' = n + 1 /\ helpers' = hs2 /\ cls' = cls \cup grown \cup own

\* re-adding a registered candidate changes nothing
ReAdd == n > 0 /\ UNCHANGED vars

Next == Add \/ ReAdd
Spec == Init /\ [][Next]_vars

(***************************************************************************)
(* C15: no two candidates can be selected together, every single one can.  *)
(***************************************************************************)
\* any two distinct candidates disagree on the polarity of some helper
Excl == \A i, j \in 0..(n - 1) : i < j =>
           \E b \in 0..(helpers - 1) : \E p \in BOOLEAN : <<i, b, p>> \in cls /\ <<j, b, ~p>> \in cls
\* no candidate is bound to both polarities of one helper (so it can be selected alone)
Cons == \A i \in 0..(n - 1), b \in 0..(helpers - 1) : ~(<<i, b, TRUE>> \in cls /\ <<i, b, FALSE>> \in cls)
\* every candidate has a clause for every helper
Complete == n >= 2 => \A i \in 0..(n - 1), b \in 0..(helpers - 1) : \E p \in BOOLEAN : <<i, b, p>> \in cls
\* the number of helpers is minimal: ceil(log2 n)
Minimal == n >= 2 => (2 ^ helpers >= n /\ 2 ^ (helpers - 1) < n)
=============================================================================
