"""tiny helper for scripted source edits (used interactively, not by checks)"""
def patch(path, subs):
    s = open(path).read()
    for t in subs:
        old, new = t[0], t[1]
        cnt = t[2] if len(t) > 2 else 1
        assert s.count(old) == cnt, (path, old[:80], s.count(old))
        s = s.replace(old, new)
    open(path, 'w').write(s)
