----------------------------- MODULE LazyCdclW ------------------------------
(***************************************************************************)
(* Layer B: the canonical model of Solver::solve, WATCH-FAITHFUL variant.   *)
(*                                                                         *)
(* Same state machine as LazyCdcl.tla, but propagation is not "all unit    *)
(* clauses to fixpoint": it follows src/solver/mod.rs propagate() and       *)
(* watch_map.rs literally - two watched literals per clause, one linked     *)
(* list of clauses per watched literal (new clauses and moved watches go to *)
(* the head), a propagate index into the trail, watches that move to the    *)
(* first literal (in the clause's own order) that is not false and is not   *)
(* the other watch.  A clause that is already unit when the encoder adds it *)
(* is therefore NOT propagated until one of its watched literals is         *)
(* assigned - exactly as in the code - and clauses are learnt with their    *)
(* literals in the order analyze() visits them.  Given the decisions, this  *)
(* model is deterministic, so the real solver's outcome must be one of its  *)
(* outcomes.                                                                *)
(*                                                                         *)
(* Original header of LazyCdcl.tla:                                         *)
(* Layer B: the canonical model of Solver::solve.                          *)
(*                                                                         *)
(* One action per critical section of the code (src/solver/mod.rs,         *)
(* encoding.rs):                                                           *)
(*   Install   run_sat: install the target (root or a soft requirement),   *)
(*             encode its clauses                        (mod.rs 396-446)  *)
(*   PropTop   propagate after an encode; a conflict at the first level of *)
(*             the run fails the target, a higher one restarts (448-482)   *)
(*   Decide    decide(): any requires clause whose parent is installed and *)
(*             that has no installed candidate, root's first (678-871);    *)
(*             its first non-false candidate is installed one level up     *)
(*   PropLearn propagate_and_learn: propagate to fixpoint; on a conflict   *)
(*             first-UIP analysis (analyze, 1304-1427), learnt clause,     *)
(*             backjump, assert                                            *)
(*   Check     the partial solution: encode newly installed solvables      *)
(*             (493-570), restart if an added clause conflicts             *)
(*   NextSoft  solve(): the next soft requirement (332-343)                *)
(* Lazy encoding (Encoder) is a macro step: the set of clauses it adds     *)
(* does not depend on the completion order of provider requests (that is   *)
(* AsyncFetch.tla's subject).  Propagation is a macro step to fixpoint.    *)
(* The only nondeterminism is the choice in Decide, so TLC proves the      *)
(* properties for every admissible decision heuristic.                     *)
(*                                                                         *)
(* Variables are solver variables: 0 = root, s = solvable s, NS+k = the    *)
(* k-th at-most-one helper.  A literal is <<variable, 0|1>>.               *)
(***************************************************************************)
EXTENDS Universe, CaseFile     \* Cases: sequence of [id, u, ps, ...] records

VARIABLES ci,           \* which case this behaviour solves
          sk,           \* which problem of the case's history is being solved (one solver)
          st            \* the solver state
vars == <<ci, sk, st>>

U == Cases[ci].u
P == Cases[ci].ps[sk]

NS == Len(U.solv)
Lit(v, pos) == <<v, IF pos THEN 1 ELSE 0>>

(***************************************************************************)
(* trail                                                                   *)
(***************************************************************************)
TrueLits(tr) == {Lit(tr[i].v, tr[i].val) : i \in DOMAIN tr}
\* the assignment as the set A of true literals
ValA(A, v) == IF <<v, 1>> \in A THEN "T" ELSE IF <<v, 0>> \in A THEN "F" ELSE "U"
LitValA(A, x) == IF x \in A THEN "T" ELSE IF Neg(x) \in A THEN "F" ELSE "U"
ValIn(tr, v) == ValA(TrueLits(tr), v)
LitVal(tr, x) == LitValA(TrueLits(tr), x)
LvlIn(tr, v) == IF \E i \in DOMAIN tr : tr[i].v = v THEN tr[CHOOSE i \in DOMAIN tr : tr[i].v = v].lvl ELSE 0
UndoTo(tr, l) == SeqFilter(tr, LAMBDA d : d.lvl <= l)     \* levels are non-decreasing along the trail
TopLevel(tr) == IF tr = <<>> THEN 0 ELSE tr[Len(tr)].lvl

(***************************************************************************)
(* at-most-one per package: transcription of AtMostOnceTracker::add        *)
(***************************************************************************)
BitOf(i, b) == (i \div (2 ^ b)) % 2 = 1

\* seq: the literals in the order the code visits them; w: the two watched literals (<<>> = none)
MkClauseS(kind, seq, par, why, w) ==
  [kind |-> kind, lits |-> {seq[i] : i \in DOMAIN seq}, seq |-> seq, par |-> par, why |-> why, w |-> w]

\* watch lists: literal -> sequence of clause ids, head first
WGet(wl, x) == IF x \in DOMAIN wl THEN wl[x] ELSE <<>>
WPut(wl, x, q) == [y \in (DOMAIN wl) \cup {x} |-> IF y = x THEN q ELSE wl[y]]
\* start_watching: the clause goes to the head of the list of each of its watched literals
StartWatching(wl, id, w) ==
  IF w = <<>> THEN wl
  ELSE LET wl1 == WPut(wl, w[1], <<id>> \o WGet(wl, w[1])) IN WPut(wl1, w[2], <<id>> \o WGet(wl1, w[2]))

\* appends clauses (in order) and registers their watches
RECURSIVE AppendWatched(_, _)
AppendWatched(s, cs) ==
  IF cs = <<>> THEN s
  ELSE LET id == Len(s.cls) + 1 IN
       AppendWatched([s EXCEPT !.cls = Append(s.cls, Head(cs)), !.wl = StartWatching(s.wl, id, Head(cs).w)], Tail(cs))

AmoAdd(s, n, c) ==
  LET vs0 == s.amo[n].vars IN
  IF \E i \in DOMAIN vs0 : vs0[i] = c THEN s
  ELSE IF vs0 = <<>> THEN [s EXCEPT !.amo[n].vars = <<c>>]
  ELSE LET RECURSIVE Grow(_)
           Grow(t) ==
             LET hs == t.amo[n].helpers IN
             IF Len(vs0) > 2 ^ Len(hs) - 1
             THEN LET h == t.nvars + 1
                      b == Len(hs)
                      newc == [i \in 1..Len(vs0) |->
                                 MkClauseS("forbid", <<Lit(vs0[i], FALSE), Lit(h, BitOf(i - 1, b))>>, vs0[i], <<>>,
                                           <<Lit(vs0[i], FALSE), Lit(h, BitOf(i - 1, b))>>)]
                  IN Grow(AppendWatched([t EXCEPT !.amo[n].helpers = Append(hs, h), !.nvars = h], newc))
             ELSE t
           s1 == Grow(s)
           idx == Len(vs0)
           hs1 == s1.amo[n].helpers
           own == [b \in 1..Len(hs1) |->
                     MkClauseS("forbid", <<Lit(c, FALSE), Lit(hs1[b], BitOf(idx, b - 1))>>, c, <<>>,
                               <<Lit(c, FALSE), Lit(hs1[b], BitOf(idx, b - 1))>>)]
       IN AppendWatched([s1 EXCEPT !.amo[n].vars = Append(vs0, c)], own)

(***************************************************************************)
(* Encoder: the clauses of a set of solvables, as one macro step.  `q` is  *)
(* the queue of solvables whose dependencies are to be encoded (0 = root). *)
(* The assignment does not change during an encode.                        *)
(***************************************************************************)
HintedOf(n) == IF ~U.pkg[n].exists THEN {}
               ELSE IF U.pkg[n].hint.mode = "all" THEN Range(U.pkg[n].cands)
               ELSE IF U.pkg[n].hint.mode = "some" THEN Range(U.pkg[n].hint.list) ELSE {}

\* clause added; if `flag` it is reported as conflicting with the current assignment
AddClause(s, c, flag) ==
  [s EXCEPT !.cls = Append(s.cls, c), !.wl = StartWatching(s.wl, Len(s.cls) + 1, c.w),
            !.flagged = IF flag THEN s.flagged \cup {Len(s.cls) + 1} ELSE s.flagged]

AddExcluded(s, x) ==
  LET s1 == AddClause(s, MkClauseS("excluded", <<Lit(x, FALSE)>>, x, <<>>, <<>>), ValIn(s.tr, x) = "T")
  IN [s1 EXCEPT !.asserts = Append(s1.asserts, <<x, Len(s1.cls)>>)]

\* candidates of package n become known: hint bits, lock clauses, exclusions
\* (the task was queued by queue_package, which already recorded n in addP)
FetchPkg(s, n) ==
  LET s0 == [s EXCEPT !.hint = s.hint \cup HintedOf(n)] IN
  IF ~U.pkg[n].exists THEN s0
  ELSE LET lk == U.pkg[n].locked
           others == SeqFilter(U.pkg[n].cands, LAMBDA c : c # lk)
           RECURSIVE Locks(_, _)
           Locks(t, cs) == IF cs = <<>> THEN t
                           ELSE Locks(AddClause(t, MkClauseS("lock", <<Lit(Head(cs), FALSE), Lit(0, FALSE)>>, lk, <<>>,
                                                             <<Lit(0, FALSE), Lit(Head(cs), FALSE)>>), FALSE),
                                      Tail(cs))
           s1 == IF lk = 0 THEN s0 ELSE Locks(s0, others)
           RECURSIVE Excl(_, _)
           Excl(t, es) == IF es = <<>> THEN t ELSE Excl(AddExcluded(t, Head(es)), Tail(es))
       IN Excl(s1, U.pkg[n].excluded)

\* names mentioned by a dependency record, in the order the encoder queues them
NamesSeq(x) ==
  LET rs == ReqsOf(U, P, x) cs == ConsOf(U, P, x) IN
  Concat([i \in DOMAIN rs |-> [j \in DOMAIN rs[i] |-> U.vs[rs[i][j]].name]]) \o [i \in DOMAIN cs |-> U.vs[cs[i]].name]

\* queue_solvable: recorded as encoded at once, its dependency record is a task
QueueSolvable(s, x) ==
  IF x \in s.addS THEN s
  ELSE [s EXCEPT !.addS = s.addS \cup {x}, !.q = Append(s.q, [k |-> "deps", x |-> x, r |-> <<>>, v |-> 0])]

\* one requirement of x: candidates are interned, queued eagerly when their
\* dependencies are cheaply available (and they are not assigned false), registered
\* with the at-most-one tracker, then the requires clause
EncodeReq(s, x, r) ==
  LET cands == ReqCands(U, r)
      RECURSIVE Reg(_, _)
      Reg(t, cs) ==
        IF cs = <<>> THEN t
        ELSE LET c == Head(cs)
                 t1 == IF (c \in t.hint \/ c \in t.cD) /\ ValIn(t.tr, c) # "F" THEN QueueSolvable(t, c) ELSE t
             IN Reg(AmoAdd(t1, NameOf(U, c), c), Tail(cs))
      s1 == Reg(s, cands)
      seq == <<Lit(x, FALSE)>> \o [i \in DOMAIN cands |-> Lit(cands[i], TRUE)]
      allFalse == cands # <<>> /\ \A i \in DOMAIN cands : ValIn(s.tr, cands[i]) = "F"
      \* watch the parent and the first candidate that is not false (the first one if all are)
      notFalse == SeqFilter(cands, LAMBDA c : ValIn(s.tr, c) # "F")
      w == IF cands = <<>> THEN <<>>
           ELSE <<Lit(x, FALSE), Lit(IF notFalse = <<>> THEN cands[1] ELSE notFalse[1], TRUE)>>
      s2 == AddClause(s1, [kind |-> "requires", lits |-> {seq[i] : i \in DOMAIN seq}, seq |-> seq, par |-> x,
                           why |-> <<>>, cands |-> cands, w |-> w], allFalse)
  IN IF cands = <<>> THEN [s2 EXCEPT !.asserts = Append(s2.asserts, <<x, Len(s2.cls)>>)] ELSE s2

EncodeCon(s, x, v) ==
  LET RECURSIVE Go(_, _)
      Go(t, cs) ==
        IF cs = <<>> THEN t
        ELSE LET c == Head(cs)
                 t1 == AddClause(t, MkClauseS("constrains", <<Lit(x, FALSE), Lit(c, FALSE)>>, x, <<>>,
                                              IF c = x THEN <<>> ELSE <<Lit(x, FALSE), Lit(c, FALSE)>>), ValIn(t.tr, c) = "T")
                 t2 == IF c = x THEN [t1 EXCEPT !.asserts = Append(t1.asserts, <<x, Len(t1.cls)>>)] ELSE t1
             IN Go(t2, Tail(cs))
  IN Go(s, NonMatch(U, v))

\* the dependency record of x arrived: Unknown => exclusion clause; otherwise the
\* package, requirement and constraint tasks are queued (in this order)
OnDeps(s, x) ==
  LET s0 == [s EXCEPT !.cD = IF x = 0 THEN s.cD ELSE s.cD \cup {x}] IN
  IF x # 0 /\ ~U.solv[x].known THEN AddExcluded(s0, x)
  ELSE LET ns == NamesSeq(x)
           RECURSIVE QP(_, _)
           QP(t, i) == IF i > Len(ns) THEN t
                       ELSE QP(IF ns[i] \in t.addP THEN t
                               ELSE [t EXCEPT !.addP = t.addP \cup {ns[i]},
                                              !.q = Append(t.q, [k |-> "pkg", x |-> 0, r |-> <<>>, v |-> ns[i]])], i + 1)
           rs == ReqsOf(U, P, x)
           cs == ConsOf(U, P, x)
           s1 == QP(s0, 1)
           s2 == [s1 EXCEPT !.q = s1.q \o [i \in DOMAIN rs |-> [k |-> "req", x |-> x, r |-> rs[i], v |-> 0]]
                                       \o [i \in DOMAIN cs |-> [k |-> "con", x |-> x, r |-> <<>>, v |-> cs[i]]]]
       IN s2

\* the encoder's futures complete in the order they were queued (synchronous provider)
RECURSIVE Drain(_)
Drain(s) ==
  IF s.q = <<>> THEN s
  ELSE LET t == Head(s.q)
           s0 == [s EXCEPT !.q = Tail(s.q)] IN
       Drain(CASE t.k = "deps" -> OnDeps(s0, t.x)
               [] t.k = "pkg" -> FetchPkg(s0, t.v)
               [] t.k = "req" -> EncodeReq(s0, t.x, t.r)
               [] t.k = "con" -> EncodeCon(s0, t.x, t.v))

\* a directly installed solvable (soft requirement) joins its package's tracker first
Encode(s, xs) ==
  LET RECURSIVE Start(_, _)
      Start(t, ys) == IF ys = <<>> THEN t
                      ELSE Start(QueueSolvable(IF Head(ys) = 0 THEN t ELSE AmoAdd(t, NameOf(U, Head(ys)), Head(ys)), Head(ys)),
                                 Tail(ys))
  IN Drain(Start([s EXCEPT !.q = <<>>, !.flagged = {}], xs))

(***************************************************************************)
(* propagate(): negative assertions, unit learnt clauses, then the watch   *)
(* lists of every literal that became false, in trail order.               *)
(* Result: the new state and the conflicting clause (0 = none).            *)
(***************************************************************************)
Push(s, v, val, L, why) == [s EXCEPT !.tr = Append(s.tr, [v |-> v, val |-> val, lvl |-> L, why |-> why])]

RECURSIVE ApplyAsserts(_, _, _)
ApplyAsserts(s, as, L) ==
  IF as = <<>> THEN [s |-> s, confl |-> 0]
  ELSE LET v == Head(as)[1] id == Head(as)[2] a == ValIn(s.tr, v) IN
       IF a = "T" THEN [s |-> s, confl |-> id]
       ELSE ApplyAsserts(IF a = "U" THEN Push(s, v, FALSE, L, id) ELSE s, Tail(as), L)

RECURSIVE ApplyUnits(_, _, _)
ApplyUnits(s, ids, L) ==
  IF ids = <<>> THEN [s |-> s, confl |-> 0]
  ELSE LET x == s.cls[Head(ids)].seq[1]
           a == LitVal(s.tr, x) IN
       IF a = "F" THEN [s |-> s, confl |-> Head(ids)]
       ELSE ApplyUnits(IF a = "U" THEN Push(s, x[1], x[2] = 1, L, Head(ids)) ELSE s, Tail(ids), L)

\* only requires and learnt clauses can move a watch
Movable(c) == c.kind \in {"requires", "learnt"}
\* next_unwatched_literal: the first literal of the clause, in its own order, that is
\* not the other watched literal and is not false
NextWatch(A, c, other) ==
  LET ok == SeqFilter(c.seq, LAMBDA x : x # other /\ Neg(x) \notin A) IN
  IF Movable(c) /\ ok # <<>> THEN ok[1] ELSE <<-1, -1>>

\* walk the list of clauses watching `lit` (which just became false)
RECURSIVE Walk(_, _, _, _, _)
Walk(s, lit, rest, kept, L) ==
  IF rest = <<>> THEN [s |-> [s EXCEPT !.wl = WPut(s.wl, lit, kept)], confl |-> 0]
  ELSE LET id == Head(rest)
           c == s.cls[id]
           wi == IF c.w[1] = lit THEN 1 ELSE 2
           other == c.w[3 - wi]
           A == TrueLits(s.tr)
       IN IF other \in A THEN Walk(s, lit, Tail(rest), Append(kept, id), L)
          ELSE LET nw == NextWatch(A, c, other) IN
               IF nw # <<-1, -1>>
               THEN \* the watch moves: the clause leaves this list and heads the list of nw
                    Walk([s EXCEPT !.cls[id].w[wi] = nw, !.wl = WPut(s.wl, nw, <<id>> \o WGet(s.wl, nw))],
                         lit, Tail(rest), kept, L)
               ELSE IF Neg(other) \in A
                    THEN [s |-> [s EXCEPT !.wl = WPut(s.wl, lit, kept \o rest)], confl |-> id]
                    ELSE Walk(Push(s, other[1], other[2] = 1, L, id), lit, Tail(rest), Append(kept, id), L)

RECURSIVE PropLoop(_, _)
PropLoop(s, L) ==
  IF s.pi >= Len(s.tr) THEN [s |-> s, confl |-> 0]
  ELSE LET d == s.tr[s.pi + 1]
           lit == <<d.v, IF d.val THEN 0 ELSE 1>>       \* the literal that is false now
           r == Walk([s EXCEPT !.pi = s.pi + 1], lit, WGet(s.wl, lit), <<>>, L)
       IN IF r.confl # 0 THEN r ELSE PropLoop(r.s, L)

Propagate(s, L) ==
  LET a == ApplyAsserts(s, s.asserts, L) IN
  IF a.confl # 0 THEN a
  ELSE LET unitLearnt == SeqFilter([i \in DOMAIN s.cls |-> i],
                                   LAMBDA i : s.cls[i].kind = "learnt" /\ Len(s.cls[i].seq) = 1)
           b == ApplyUnits(a.s, unitLearnt, L) IN
       IF b.confl # 0 THEN b ELSE PropLoop(b.s, L)

\* undo_until: everything left on the trail counts as propagated
UndoS(s, l) == LET t == UndoTo(s.tr, l) IN [s EXCEPT !.tr = t, !.pi = Len(t)]

(***************************************************************************)
(* First-UIP analysis, line by line from Solver::analyze; the learnt       *)
(* literals are collected in the order they are visited                    *)
(***************************************************************************)
RECURSIVE VisitSeq(_, _, _)
VisitSeq(a, sq, i) ==
  IF i > Len(sq) THEN a
  ELSE LET x == sq[i] IN
       IF (~a.first /\ x[1] = a.cv) \/ x[1] \in a.seen THEN VisitSeq(a, sq, i + 1)
       ELSE LET lv == LvlIn(a.tr, x[1])
                a1 == [a EXCEPT !.seen = a.seen \cup {x[1]}] IN
            IF lv = a.cur THEN VisitSeq([a1 EXCEPT !.causes = a.causes + 1], sq, i + 1)
            ELSE VisitSeq([a1 EXCEPT !.learnt = Append(a.learnt, Lit(x[1], ValIn(a.tr, x[1]) # "T")),
                                     !.btl = IF lv > a.btl THEN lv ELSE a.btl], sq, i + 1)
VisitLits(cls, a, c) == [VisitSeq(a, c.seq, 1) EXCEPT !.first = FALSE, !.why = Append(a.why, a.cid)]

RECURSIVE PopSeen(_)
PopSeen(a) ==
  LET d == a.tr[Len(a.tr)]
      tr2 == SubSeq(a.tr, 1, Len(a.tr) - 1)
      a2 == [a EXCEPT !.tr = tr2, !.cv = d.v, !.sval = d.val, !.cid = d.why, !.cur = TopLevel(tr2)]
  IN IF d.v \in a.seen THEN a2 ELSE PopSeen(a2)

RECURSIVE AnLoop(_, _)
AnLoop(cls, a) ==
  LET a1 == VisitLits(cls, a, cls[a.cid])
      a2 == PopSeen(a1)
      a3 == [a2 EXCEPT !.causes = IF a2.causes > 0 THEN a2.causes - 1 ELSE 0]
  IN IF a3.causes = 0 THEN a3 ELSE AnLoop(cls, a3)

Analyze(cls, tr, L, cid) ==
  AnLoop(cls, [tr |-> tr, seen |-> {}, learnt |-> <<>>, btl |-> 0, causes |-> 0, cid |-> cid, cv |-> -1,
               sval |-> TRUE, first |-> TRUE, cur |-> L, why |-> <<>>])

(***************************************************************************)
(* analyze_unsolvable: the clauses reported for an Unsolvable verdict      *)
(***************************************************************************)
RECURSIVE ExpandClause(_, _)
ExpandClause(cls, i) == IF cls[i].kind = "learnt"
                        THEN UNION {ExpandClause(cls, cls[i].why[k]) : k \in DOMAIN cls[i].why}
                        ELSE {i}

RECURSIVE UnsolvWalk(_, _, _, _, _)
UnsolvWalk(cls, tr, k, involved, acc) ==
  IF k = 0 THEN acc
  ELSE LET d == tr[k] IN
       IF d.v = 0 \/ d.v \notin involved THEN UnsolvWalk(cls, tr, k - 1, involved, acc)
       ELSE UnsolvWalk(cls, tr, k - 1,
                       involved \cup {x[1] : x \in {y \in cls[d.why].lits : LitVal(tr, y) # "T"}},
                       acc \cup ExpandClause(cls, d.why))
AnalyzeUnsolvable(cls, tr, cid) ==
  UnsolvWalk(cls, tr, Len(tr), {x[1] : x \in cls[cid].lits}, ExpandClause(cls, cid))

(***************************************************************************)
(* The state machine                                                       *)
(***************************************************************************)
S0 == [tr |-> <<>>, pi |-> 0, wl |-> <<>>,
       cls |-> <<MkClauseS("root", <<Lit(0, TRUE)>>, 0, <<>>, <<>>)>>, asserts |-> <<>>,
       addS |-> {}, addP |-> {}, amo |-> [n \in Names(U) |-> [vars |-> <<>>, helpers |-> <<>>]],
       nvars |-> NS, hint |-> {}, cD |-> {}, q |-> <<>>, flagged |-> {},
       lvl |-> 0, start |-> 0, target |-> 0, softLeft |-> Cases[ci].ps[1].soft,
       pc |-> "install", outcome |-> [kind |-> "none"], nlearnt |-> 0, nrestart |-> 0]

Init == ci \in DOMAIN Cases /\ sk = 1 /\ st = S0

Install ==
  /\ st.pc = "install"
  /\ LET L == st.start + 1
         s0 == UndoS(st, st.start)
         s1 == [Push(s0, st.target, TRUE, L, 1) EXCEPT !.lvl = L]
         s2 == Encode(s1, <<st.target>>)
     IN st' = [s2 EXCEPT !.pc = "proptop"]

\* the target of this run cannot be installed
FailTarget(s, cid) ==
  IF s.start = 0
  THEN [s EXCEPT !.pc = "done", !.outcome = [kind |-> "unsat", ids |-> AnalyzeUnsolvable(s.cls, s.tr, cid)]]
  ELSE [Push(UndoS(s, s.start), s.target, FALSE, s.start + 1, 1) EXCEPT !.pc = "nextsoft"]

PropTop ==
  /\ st.pc = "proptop"
  /\ LET r == Propagate(st, st.lvl) IN
     IF r.confl = 0 THEN st' = [r.s EXCEPT !.pc = "decide"]
     ELSE IF st.lvl = st.start + 1 THEN st' = FailTarget(r.s, r.confl)
     ELSE st' = [UndoS(r.s, st.start) EXCEPT !.lvl = st.start, !.pc = "install", !.nrestart = st.nrestart + 1]

\* requires clauses that need a decision: parent installed, no candidate installed
Open(s) == LET A == TrueLits(s.tr) IN
           {i \in DOMAIN s.cls : /\ s.cls[i].kind = "requires"
                                 /\ <<s.cls[i].par, 1>> \in A
                                 /\ ~\E x \in s.cls[i].lits : x[2] = 1 /\ x \in A}
FirstOpenCand(s, i) ==
  LET A == TrueLits(s.tr)
      cs == SeqFilter(s.cls[i].cands, LAMBDA c : <<c, 0>> \notin A) IN IF cs = <<>> THEN 0 ELSE cs[1]
\* explicit requirements (root's) are decided before any other
Choices(s) == LET o == Open(s)
                  ro == {i \in o : s.cls[i].par = 0}
              IN IF ro # {} THEN ro ELSE o

Decide ==
  /\ st.pc = "decide"
  /\ IF Open(st) = {} THEN st' = [st EXCEPT !.pc = "check"]
     ELSE \E i \in Choices(st) :
            LET c == FirstOpenCand(st, i) IN
            /\ c # 0
            /\ st' = [Push(st, c, TRUE, st.lvl + 1, i) EXCEPT !.lvl = st.lvl + 1, !.pc = "proplearn"]

PropLearn ==
  /\ st.pc = "proplearn"
  /\ LET r == Propagate(st, st.lvl) IN
     IF r.confl = 0 THEN st' = [r.s EXCEPT !.pc = "decide"]
     ELSE IF st.lvl = 1
          THEN st' = [r.s EXCEPT !.pc = "done",
                                 !.outcome = [kind |-> "unsat", ids |-> AnalyzeUnsolvable(r.s.cls, r.s.tr, r.confl)]]
     ELSE LET a == Analyze(r.s.cls, r.s.tr, st.lvl, r.confl)
              last == Lit(a.cv, ~a.sval)
              seq == Append(a.learnt, last)
              tgt == IF a.btl > st.start + 1 THEN a.btl ELSE st.start + 1
              id == Len(r.s.cls) + 1
              w == IF Len(seq) = 1 THEN <<>> ELSE <<seq[1], seq[Len(seq)]>>
              s1 == AddClause([r.s EXCEPT !.tr = a.tr], MkClauseS("learnt", seq, -1, a.why, w), FALSE)
              s2 == UndoS(s1, tgt)
          IN st' = [Push(s2, last[1], last[2] = 1, tgt, id) EXCEPT !.lvl = tgt, !.nlearnt = st.nlearnt + 1,
                                                                  !.flagged = st.flagged]

Installed(s) == {s.tr[i].v : i \in {j \in DOMAIN s.tr : s.tr[j].val /\ s.tr[j].v \in 1..NS}}

Check ==
  /\ st.pc = "check"
  /\ LET new == SeqFilter([i \in DOMAIN st.tr |-> st.tr[i].v],
                          LAMBDA v : v \in Installed(st) /\ v \notin st.addS) IN
     IF new = <<>> THEN st' = [st EXCEPT !.pc = "nextsoft"]
     ELSE LET s2 == Encode(st, new) IN
          IF s2.flagged = {} THEN st' = [s2 EXCEPT !.pc = "proptop"]
          ELSE st' = [UndoS(s2, s2.start) EXCEPT !.lvl = s2.start, !.pc = "install", !.nrestart = s2.nrestart + 1]

NextSoft ==
  /\ st.pc = "nextsoft"
  /\ IF st.softLeft = <<>>
     THEN st' = [st EXCEPT !.pc = "done", !.outcome = [kind |-> "sat", sol |-> Installed(st)]]
     ELSE LET x == Head(st.softLeft) IN
          IF ValIn(st.tr, x) # "U" THEN st' = [st EXCEPT !.softLeft = Tail(st.softLeft)]
          ELSE st' = [st EXCEPT !.softLeft = Tail(st.softLeft), !.target = x,
                                !.start = TopLevel(st.tr), !.lvl = TopLevel(st.tr), !.pc = "install"]

\* solve() is called again on the same solver: the solver state is reset, the cache
\* (hint bits, fetched dependency records) is kept                   (mod.rs 305-324)
SolveAgain ==
  /\ st.pc = "done" /\ sk < Len(Cases[ci].ps)
  /\ sk' = sk + 1
  /\ st' = [S0 EXCEPT !.hint = st.hint, !.cD = st.cD, !.softLeft = Cases[ci].ps[sk + 1].soft]
  /\ UNCHANGED ci

(***************************************************************************)
(* Cancellation (C12, C13).  should_cancel_with_value is polled at the     *)
(* start of every propagation round and before every uncached provider     *)
(* request, so a solve can end with Cancelled from any of the steps above. *)
(* The solver state is thrown away at the next solve; what the provider    *)
(* had returned stays in the cache: the dependency records known at the    *)
(* last completed encode, possibly more (requests that completed before    *)
(* the poll that saw the cancellation) - modelled by the two extremes.     *)
(* Off unless a configuration overrides CancelOn.                          *)
(***************************************************************************)
CancelOn == FALSE
Cancel ==
  /\ CancelOn /\ st.pc # "done"
  /\ \E extra \in {{}, Listed(U)} :
        st' = [st EXCEPT !.pc = "done", !.outcome = [kind |-> "cancelled"], !.cD = st.cD \cup extra]

Next == \/ (Install \/ PropTop \/ Decide \/ PropLearn \/ Check \/ NextSoft \/ Cancel) /\ UNCHANGED <<ci, sk>>
        \/ SolveAgain
Spec == Init /\ [][Next]_vars /\ WF_vars(Next)

(***************************************************************************)
(* Properties, for every behaviour (= every admissible decision order)     *)
(***************************************************************************)
Done == st.pc = "done"
IsSat == Done /\ st.outcome.kind = "sat"
IsUnsat == Done /\ st.outcome.kind = "unsat"

C01_ValidOnSat   == IsSat => Valid(U, P, st.outcome.sol, Range(P.soft))
C02_UnsatSound   == IsUnsat => ~Satisfiable(U, P)
C02_NoSoftError  == Done /\ Satisfiable(U, P) => ~IsUnsat
C05_Supported    == IsSat => Supported(U, P, st.outcome.sol)
C07_Preferred    == (IsSat /\ P.soft = <<>> /\ ConflictFree(U, Hard(P))) => st.outcome.sol = PreferredClosure(U, Hard(P))
C08_DirectBest   == (IsSat /\ DirectBestFeasible(U, P)) => DirectBest(U, P) \subseteq st.outcome.sol
C14_SoftObliged  == IsSat => SoftObliged(U, P) \subseteq st.outcome.sol
C03_SelfContained == IsUnsat => /\ \A i \in st.outcome.ids : st.cls[i].kind # "learnt"
                                /\ Unsat({st.cls[i].lits : i \in st.outcome.ids}, {<<0, 1>>})
LearntImplied == Done => \A i \in DOMAIN st.cls : st.cls[i].kind = "learnt" =>
                    RUP({st.cls[j].lits : j \in 1..(i - 1)}, st.cls[i].lits)
\* when a solution is returned no clause is falsified (the lazily propagated clauses
\* included): the watch scheme loses no constraint
NoClauseFalsified == IsSat => LET A == TrueLits(st.tr) IN
   \A i \in DOMAIN st.cls : \E x \in st.cls[i].lits : x \in A \/ (x[2] = 0 /\ <<x[1], 1>> \notin A)
      \/ (st.cls[i].kind \in {"lock", "excluded"} /\ \E y \in st.cls[i].lits : y[1] \in Range(P.soft))
\* watch invariants: every watched clause is in the lists of exactly its two watched literals
WatchesConsistent ==
  /\ \A i \in DOMAIN st.cls : st.cls[i].w # <<>> =>
        /\ st.cls[i].w[1] \in st.cls[i].lits /\ st.cls[i].w[2] \in st.cls[i].lits /\ st.cls[i].w[1] # st.cls[i].w[2]
        /\ \A k \in 1..2 : \E j \in DOMAIN WGet(st.wl, st.cls[i].w[k]) : WGet(st.wl, st.cls[i].w[k])[j] = i
  /\ \A x \in DOMAIN st.wl : \A j \in DOMAIN st.wl[x] : x \in {st.cls[st.wl[x][j]].w[1], st.cls[st.wl[x][j]].w[2]}
NoDeadRequirement == st.pc = "decide" => \A i \in Open(st) : FirstOpenCand(st, i) # 0
TrailConsistent == \A i, j \in DOMAIN st.tr : (i < j => st.tr[i].lvl <= st.tr[j].lvl) /\ (st.tr[i].v = st.tr[j].v => i = j)
Termination == <>(Done /\ sk = Len(Cases[ci].ps))
=============================================================================
