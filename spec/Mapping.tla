------------------------------ MODULE Mapping ------------------------------
(***************************************************************************)
(* C19: resolvo::Mapping as a map from ids to values, including the        *)
(* history-dependent fields the implementation keeps (len, max) because    *)
(* iteration and serialisation depend on them.                             *)
(*   m[k] = 0  : no value stored under id k                                *)
(*   max       : highest id ever inserted (never decreases on unset); a    *)
(*               serde round trip rebuilds the mapping by inserts, so it   *)
(*               becomes the highest id present                            *)
(***************************************************************************)
EXTENDS Integers, Sequences, FiniteSets

CONSTANTS IdSeq,    \* ascending sequence of the ids of the alphabet
          Vals      \* set of non-zero values

Ids == {IdSeq[i] : i \in DOMAIN IdSeq}

VARIABLES m, len, max
vars == <<m, len, max>>

Present(mm) == {k \in Ids : mm[k] # 0}
MaxOf(S) == IF S = {} THEN 0 ELSE CHOOSE x \in S : \A y \in S : x >= y

Init == m = [k \in Ids |-> 0] /\ len = 0 /\ max = 0

Insert(k, v) ==
  /\ m' = [m EXCEPT ![k] = v]
  /\ len' = IF m[k] = 0 THEN len + 1 ELSE len
  /\ max' = IF k > max THEN k ELSE max

Unset(k) ==
  /\ m' = [m EXCEPT ![k] = 0]
  /\ len' = IF m[k] # 0 THEN len - 1 ELSE len
  /\ UNCHANGED max

\* serialise to a dense option array of max+1 slots, deserialise by inserts
RoundTrip ==
  /\ UNCHANGED <<m, len>>
  /\ max' = MaxOf(Present(m))

Next == \/ \E k \in Ids, v \in Vals : Insert(k, v)
        \/ \E k \in Ids : Unset(k)
        \/ RoundTrip

Spec == Init /\ [][Next]_vars

(***************************************************************************)
(* What a user can observe (the projection compared with the real object)  *)
(***************************************************************************)
RECURSIVE Pairs(_, _)
Pairs(mm, i) == IF i > Len(IdSeq) THEN <<>>
                ELSE (IF mm[IdSeq[i]] # 0 THEN <<<<IdSeq[i], mm[IdSeq[i]]>>>> ELSE <<>>) \o Pairs(mm, i + 1)

Obs(mm, ll, xx) ==
  [get   |-> [i \in DOMAIN IdSeq |-> mm[IdSeq[i]]],    \* get(id) for every id of the alphabet (0 = None)
   len   |-> ll,
   empty |-> (ll = 0),
   iter  |-> Pairs(mm, 1),                              \* every stored pair once, ascending
   slots |-> xx + 1]                                    \* length of the serialised option array

(***************************************************************************)
(* Invariants (C19)                                                        *)
(***************************************************************************)
LenIsCount   == len = Cardinality(Present(m))
MaxBounds    == \A k \in Present(m) : k <= max
IterComplete == {Pairs(m, 1)[i][1] : i \in DOMAIN Pairs(m, 1)} = Present(m)
IterAscending == \A i, j \in DOMAIN Pairs(m, 1) : i < j => Pairs(m, 1)[i][1] < Pairs(m, 1)[j][1]
=============================================================================
