---------------------------- MODULE Trace_Solve ----------------------------
(***************************************************************************)
(* Layer C: judges a trace recorded from the real solver, line by line,    *)
(* against the weakest rule every correct implementation must obey         *)
(* (DESIGN section 3.9).  Rules report and continue: a broken rule prints  *)
(*   <<"RULEFAIL", case id, solve index, line, rule, info>>                *)
(* and the state is updated as if it had held, so one bad run never hides  *)
(* the rest of the shard.  <<"COVER", case id, tags>> lines record which   *)
(* premises actually held (vacuity is measured, not assumed).              *)
(***************************************************************************)
EXTENDS Conflict, Json, IOUtils, TLC

CONSTANT OracleBound      \* largest universe (solvables) for which a hooked run is also judged by the DPLL oracle

Rec == ndJsonDeserialize(IOEnv.TRACE)

VARIABLES l,      \* next line
          ctx,    \* [id, k, begin]: case id, solve index, line of the begin event
          bb,     \* provider-side state
          wb,     \* solver-internal state rebuilt from hook events
          grp     \* last result of the current comparison group (C02 C06 C10)
vars == <<l, ctx, bb, wb, grp>>

\* the universe, problem and configuration stay in the (constant) trace; only
\* the line number of the begin event is part of the state
u == Rec[ctx.begin].u
p == Rec[ctx.begin].p
cfg == Rec[ctx.begin].cfg

\* one output line per report: PrintT of a string is never wrapped by TLC
Line(kind, id, k, rest) == PrintT(kind \o "|" \o ToString(id) \o "|" \o ToString(k) \o "|" \o rest)
Fail(rule, info) == Line("RULEFAIL", ctx.id, ctx.k, ToString(l) \o "|" \o rule \o "|" \o ToString(info))
\* rules of a property are evaluated only when the driver enabled that
\* property (environment R_Cxx = "1"); arguments are evaluated lazily
RuleOn(prop) == prop = "T" \/ IOEnv["R_" \o prop] = "1"
Chk(prop, ok, rule, info) == IF ~RuleOn(prop) THEN TRUE ELSE IF ok THEN TRUE ELSE Fail(rule, info)
RECURSIVE JoinTags(_)
JoinTags(t) == IF t = <<>> THEN "" ELSE Head(t) \o (IF Len(t) > 1 THEN "," ELSE "") \o JoinTags(Tail(t))
Cover(tags) == Line("COVER", ctx.id, ctx.k, JoinTags(tags))

E(k) == l <= Len(Rec) /\ Rec[l].ev = k /\ l' = l + 1

NoHints(U) == \A n \in Names(U) : U.pkg[n].hint.mode = "none"
HintedOf(U, n) == IF ~U.pkg[n].exists THEN {}
                  ELSE IF U.pkg[n].hint.mode = "all" THEN Range(U.pkg[n].cands)
                  ELSE IF U.pkg[n].hint.mode = "some" THEN Range(U.pkg[n].hint.list)
                  ELSE {}

GRP0 == [id |-> 0, kind |-> "", sol |-> <<>>, msg |-> "", calls |-> <<>>, profile |-> ""]
BB0 == [callseq |-> <<>>, dcalls |-> {}, ccalls |-> {}, dret |-> {}, cret |-> {}, kreqs |-> {}, knames |-> {},
        cancelSeen |-> FALSE, cancelVal |-> 0, prevSolves |-> 0, callsThisSolve |-> 0, returned |-> FALSE]
WB0 == [cls |-> <<>>, nlearnt |-> 0, trail |-> <<>>, lv |-> <<>>, why |-> <<>>, base |-> 0, unsat |-> 0, nrestart |-> 0, softlearnt |-> 0, inst |-> {}, A |-> {}, vsolv |-> <<>>, vhelp |-> <<>>, on |-> FALSE]

Init == /\ l = 1
        /\ ctx = [id |-> -1, k |-> 0, begin |-> 0]
        /\ bb = BB0
        /\ wb = WB0
        /\ grp = GRP0

(***************************************************************************)
(* begin: a new solve; a fresh solver forgets everything, a reused one     *)
(* keeps what it fetched (C13).                                            *)
(***************************************************************************)
Begin ==
  /\ E("begin") /\ UNCHANGED grp
  /\ LET r == Rec[l]
         \* a reused solver keeps what was RETURNED to it; a request that was
         \* still in flight when the previous solve ended was never answered
         base == IF r.fresh THEN BB0
                 ELSE [bb EXCEPT !.prevSolves = bb.prevSolves + 1, !.dcalls = bb.dret, !.ccalls = bb.cret]
     IN /\ ctx' = [id |-> r.id, k |-> r.k, begin |-> l]
        /\ Line("BEGIN", r.id, r.k, r.profile)
        /\ (IF WF(r.u, r.p) THEN TRUE ELSE Line("RULEFAIL", r.id, r.k, ToString(l) \o "|T_IllFormedInput|0"))
        /\ bb' = [base EXCEPT !.kreqs = base.kreqs \cup Range(r.p.reqs),
                              !.knames = base.knames \cup Mentioned(r.u, r.p, 0),
                              !.cancelSeen = FALSE, !.cancelVal = 0, !.callsThisSolve = 0,
                              !.callseq = <<>>, !.returned = FALSE]
        /\ wb' = [WB0 EXCEPT !.on = r.cfg.whitebox]

Poll ==
  /\ E("poll") /\ UNCHANGED <<ctx, wb, grp>>
  \* (a poll after solve has returned - the `verdict` event - is the renderer's business,
  \* not a point where the solver polls)
  /\ bb' = IF Rec[l].fired /\ ~bb.cancelSeen /\ ~bb.returned
           THEN [bb EXCEPT !.cancelSeen = TRUE, !.cancelVal = Rec[l].k] ELSE bb

(***************************************************************************)
(* provider calls: at most once per solver, causal, never after a          *)
(* cancellation was observed (C09 C10 C12 C13)                             *)
(***************************************************************************)
Call ==
  /\ E("call") /\ UNCHANGED <<ctx, wb, grp>>
  /\ LET a == Rec[l].arg
         nb == IF cfg.same = "exact" \/ cfg.group = ctx.id
               THEN [bb EXCEPT !.callseq = Append(bb.callseq, <<Rec[l].kind, a, Rec[l].inv>>)]
               ELSE bb
     IN
     IF Rec[l].kind = "deps" THEN
        /\ Chk("C09", a \notin bb.dcalls, "C09_DupDeps", a)
        /\ Chk("C09", ~NoHints(u) \/ a \in Range(p.soft)
                   \/ \E r \in bb.kreqs : \E i \in DOMAIN r : a \in MatchSet(u, r[i]),
                 "C09_CausalDeps", a)
        /\ Chk("C12", ~bb.cancelSeen, "C12_CallAfterCancel", <<"deps", a>>)
        /\ bb' = [nb EXCEPT !.dcalls = bb.dcalls \cup {a}, !.callsThisSolve = bb.callsThisSolve + 1]
     ELSE IF Rec[l].kind = "cands" THEN
        /\ Chk("C09", a \notin bb.ccalls, "C09_DupCands", a)
        /\ Chk("C09", ~NoHints(u) \/ a \in bb.knames, "C09_CausalCands", a)
        /\ Chk("C12", ~bb.cancelSeen, "C12_CallAfterCancel", <<"cands", a>>)
        /\ bb' = [nb EXCEPT !.ccalls = bb.ccalls \cup {a}, !.callsThisSolve = bb.callsThisSolve + 1]
     ELSE bb' = nb

Ret ==
  /\ E("ret") /\ UNCHANGED <<ctx, wb, grp>>
  /\ LET a == Rec[l].arg IN
     IF Rec[l].kind = "deps" THEN
        bb' = [bb EXCEPT !.dret = bb.dret \cup {a},
                         !.kreqs = bb.kreqs \cup Range(ReqsOf(u, p, a)),
                         !.knames = bb.knames \cup Mentioned(u, p, a)]
     ELSE IF Rec[l].kind = "cands" THEN bb' = [bb EXCEPT !.cret = bb.cret \cup {a}]
     ELSE bb' = bb

\* C20: the availability query from inside sort_candidates
CacheQuery ==
  /\ E("cachequery") /\ UNCHANGED <<ctx, bb, wb, grp>>
  /\ LET hinted == UNION {HintedOf(u, n) : n \in bb.cret} IN
     \A i \in DOMAIN Rec[l].answers :
        LET s == Rec[l].answers[i][1] ans == Rec[l].answers[i][2] IN
        Chk("C20", ans = (s \in bb.dret \/ s \in hinted), "C20_Availability", <<s, ans>>)

(***************************************************************************)
(* async runs: quiescent points (C10 no deadlock, C11 maximal issuance)    *)
(***************************************************************************)
Quiescent ==
  /\ E("quiescent") /\ UNCHANGED <<ctx, bb, wb, grp>>
  /\ Chk("C10", Rec[l].pending # <<>>, "C10_Deadlock", 0)
  /\ Chk("C11", bb.cancelSeen \/ bb.knames \subseteq bb.ccalls, "C11_NotIssued", bb.knames \ bb.ccalls)
  /\ (IF Len(Rec[l].pending) >= 2 THEN Cover(<<"quiescent2">>) ELSE TRUE)

\* solve has returned (Unsolvable); what follows is conflict rendering
Verdict == /\ E("verdict") /\ UNCHANGED <<ctx, wb, grp>>
           /\ bb' = [bb EXCEPT !.returned = TRUE]

Skip == /\ l <= Len(Rec)
        /\ Rec[l].ev \in {"blockon", "blockdone", "complete", "skipped", "end"}
        /\ l' = l + 1 /\ UNCHANGED <<ctx, bb, wb, grp>>

(***************************************************************************)
(* white-box rules on the hook stream (C01 C02 C03 C05)                    *)
(***************************************************************************)
LitSet(q) == {<<q[i][1], q[i][2]>> : i \in DOMAIN q}
Lookup(f, k) == IF \E i \in DOMAIN f : f[i][1] = k
                THEN f[CHOOSE i \in DOMAIN f : f[i][1] = k][2] ELSE -1
SolvOfVar(v) == IF v = 0 THEN 0 ELSE Lookup(wb.vsolv, v)   \* 0 = root, -1 = not a solvable
\* wb.cls[i] is the line number of the event that introduced clause i
HasClause(i) == i \in DOMAIN wb.cls
ClauseLits(i) == LitSet(Rec[wb.cls[i]].lits)
ClauseKind(i) == IF Rec[wb.cls[i]].ev = "learnt" THEN "learnt" ELSE Rec[wb.cls[i]].kind
AllLits == {ClauseLits(i) : i \in DOMAIN wb.cls}

\* each problem clause states a true fact of the universe
TrueFact(r) ==
  LET ls == LitSet(r.lits) IN
  CASE r.kind = "root" -> ls = {<<0, 1>>}
    [] r.kind = "requires" ->
         LET par == SolvOfVar(r.a)
             pos == {y \in ls : y[2] = 1}
         IN /\ par >= 0
            /\ \E i \in DOMAIN ReqsOf(u, p, par) : ReqsOf(u, p, par)[i] = r.vs
            /\ ls = {<<r.a, 0>>} \cup pos
            /\ Len(r.cands) = Len(r.vs)
            \* per version set: exactly its matching candidates (order is judged by C07)
            /\ \A i \in DOMAIN r.vs :
                 {SolvOfVar(r.cands[i][j]) : j \in DOMAIN r.cands[i]} = MatchSet(u, r.vs[i])
            /\ {x[1] : x \in pos} = UNION {Range(r.cands[i]) : i \in DOMAIN r.cands}
    [] r.kind = "constrains" ->
         LET par == SolvOfVar(r.a) c == SolvOfVar(r.b) v == r.vs[1] IN
         /\ par >= 0 /\ c > 0
         /\ \E i \in DOMAIN ConsOf(u, p, par) : ConsOf(u, p, par)[i] = v
         /\ c \in Range(NonMatch(u, v))
         /\ ls = {<<r.a, 0>>, <<r.b, 0>>}
    [] r.kind = "forbid" ->
         LET c == SolvOfVar(r.a) IN
         /\ c > 0 /\ NameOf(u, c) = r.b
         /\ <<r.a, 0>> \in ls /\ Cardinality(ls) = 2
         /\ \A x \in ls \ {<<r.a, 0>>} : Lookup(wb.vhelp, x[1]) = r.b
    [] r.kind = "lock" ->
         LET lk == SolvOfVar(r.a) o == SolvOfVar(r.b) IN
         /\ lk > 0 /\ o > 0 /\ o # lk
         /\ u.pkg[NameOf(u, o)].locked = lk
         /\ ls = {<<0, 0>>, <<r.b, 0>>}
    [] r.kind = "excluded" ->
         LET c == SolvOfVar(r.a) IN
         /\ c > 0
         /\ (c \in Range(u.pkg[NameOf(u, c)].excluded) \/ ~u.solv[c].known)
         /\ ls = {<<r.a, 0>>}
    [] OTHER -> FALSE

\* run_sat begins: for a soft requirement (start > 0) everything on the trail belongs to
\* earlier runs
RunSat ==
  /\ E("runsat") /\ UNCHANGED <<ctx, bb, grp>>
  /\ wb' = [wb EXCEPT !.base = IF Rec[l].start > 0 THEN Len(wb.trail) ELSE 0]

Restart ==
  /\ E("restart") /\ UNCHANGED <<ctx, bb, grp>>
  /\ wb' = [wb EXCEPT !.nrestart = wb.nrestart + 1]

Var ==
  /\ E("var") /\ UNCHANGED <<ctx, bb, grp>>
  /\ wb' = IF Rec[l].solv # 0
           THEN [wb EXCEPT !.vsolv = Append(wb.vsolv, <<Rec[l].v, Rec[l].solv>>)]
           ELSE [wb EXCEPT !.vhelp = Append(wb.vhelp, <<Rec[l].v, Rec[l].name>>)]

ClauseEv ==
  /\ E("clause") /\ UNCHANGED <<ctx, bb, grp>>
  /\ Chk("T", Rec[l].id = Len(wb.cls) + 1, "T_ClauseIdNotDense", Rec[l].id)
  /\ Chk("C03", TrueFact(Rec[l]), "C03_TrueFact", Rec[l])
  \* the candidates of every version set of a requirement are kept in the order C20
  \* defines (provider order, favored candidate rotated to the front): the order in
  \* which LazyCdcl!Decide tries them
  /\ (IF Rec[l].kind = "requires" /\ Len(Rec[l].cands) = Len(Rec[l].vs)
      THEN Chk("C07", \A i \in DOMAIN Rec[l].vs :
                        [j \in DOMAIN Rec[l].cands[i] |-> SolvOfVar(Rec[l].cands[i][j])] = Sorted(u, Rec[l].vs[i]),
               "C07_ClauseCandidateOrder", <<Rec[l].id, Rec[l].vs>>)
      ELSE TRUE)
  /\ wb' = [wb EXCEPT !.cls = Append(wb.cls, l)]

\* requires clauses of the root that still need a decision: no candidate
\* installed, some candidate not ruled out (the guard of LazyCdcl!Decide)
OpenRootClauses ==
  {i \in DOMAIN wb.cls :
     /\ Rec[wb.cls[i]].ev = "clause" /\ Rec[wb.cls[i]].kind = "requires" /\ Rec[wb.cls[i]].a = 0
     /\ LET pos == {y \in ClauseLits(i) : y[2] = 1} IN
          /\ \A y \in pos : y \notin wb.A
          /\ \E y \in pos : Neg(y) \notin wb.A}

\* level at which a variable was assigned (0 = not on the trail)
LvlOfVar(v) == IF \E i \in DOMAIN wb.trail : wb.trail[i][1] = v
               THEN wb.lv[CHOOSE i \in DOMAIN wb.trail : wb.trail[i][1] = v] ELSE 0
TopLvl == IF wb.lv = <<>> THEN 0 ELSE wb.lv[Len(wb.lv)]
IsRequires(i) == HasClause(i) /\ Rec[wb.cls[i]].ev = "clause" /\ Rec[wb.cls[i]].kind = "requires"

\* The guard of LazyCdcl!Decide, judged on the real decision: the decision serves a
\* requirement (a requires clause) of a solvable that is installed (C05: nothing is
\* installed for a candidate that was not chosen), the requirement is still unmet (C05),
\* and the candidate taken is the first one in the clause's candidate order that is not
\* ruled out (C07: the preferred candidate is tried first).
DecideRules(r) ==
  IF ~IsRequires(r.why)
  THEN Chk("C05", FALSE, "C05_DecideWithoutRequirement", <<r.v, r.why>>)
  ELSE LET c    == Rec[wb.cls[r.why]]
           flat == Concat(c.cands)
           pos  == {i \in DOMAIN flat : flat[i] = r.v}
       IN /\ Chk("C05", r.val /\ pos # {}, "C05_DecideNotACandidate", <<r.v, r.why>>)
          /\ Chk("C05", <<c.a, 1>> \in wb.A, "C05_DecideParentNotInstalled", <<r.v, r.why, c.a>>)
          /\ Chk("C05", \A i \in DOMAIN flat : <<flat[i], 1>> \notin wb.A, "C05_DecideForMetRequirement", <<r.v, r.why>>)
          /\ Chk("C07", pos = {} \/ LET k == CHOOSE k \in pos : \A j \in pos : k <= j
                                    IN \A i \in 1..(k - 1) : <<flat[i], 0>> \in wb.A,
                "C07_DecideNotFirstCandidate", <<r.v, r.why, flat>>)

Assign ==
  /\ E("assign") /\ UNCHANGED <<ctx, bb, grp>>
  /\ LET x == <<Rec[l].v, IF Rec[l].val THEN 1 ELSE 0>> IN
     /\ Chk("C02", x \notin wb.A /\ Neg(x) \notin wb.A, "C02_Reassigned", x)
     \* LazyCdcl!TrailConsistent: levels never decrease along the trail; a decision opens
     \* exactly the next level
     /\ Chk("C02", Rec[l].lvl >= TopLvl, "C02_TrailLevelDecreases", <<Rec[l].v, Rec[l].lvl, TopLvl>>)
     /\ Chk("C02", Rec[l].tag # "decide" \/ Rec[l].lvl = TopLvl + 1, "C02_DecisionLevel", <<Rec[l].v, Rec[l].lvl, TopLvl>>)
     \* C08 (mechanism, from the canonical model): a decision is taken for a direct
     \* requirement as long as one of them is undecided
     /\ (IF Rec[l].tag = "decide" /\ RuleOn("C08")
         THEN LET o == OpenRootClauses IN
              /\ Chk("C08", o = {} \/ Rec[l].why \in o, "C08_ExplicitFirst", <<Rec[l].v, Rec[l].why, o>>)
              /\ (IF o # {} /\ Cardinality({i \in DOMAIN wb.cls : Rec[wb.cls[i]].ev = "clause" /\ Rec[wb.cls[i]].kind = "requires" /\ Rec[wb.cls[i]].a # 0 /\ <<Rec[wb.cls[i]].a, 1>> \in wb.A}) > 0
                   THEN Cover(<<"explicit_choice">>) ELSE TRUE)
         ELSE TRUE)
     /\ (IF Rec[l].tag = "decide" /\ (RuleOn("C05") \/ RuleOn("C07")) THEN DecideRules(Rec[l]) ELSE TRUE)
     \* propagation found every conflict before the solver moves on: no clause of the
     \* database is falsified when a decision is taken
     /\ (IF Rec[l].tag = "decide" /\ RuleOn("C01")
         THEN \* (the lock / exclusion clauses of a directly named soft solvable are exempt, as
              \* in ClauseHolds: the property lets such a solvable ignore them)
              LET bad == {i \in DOMAIN wb.cls :
                            /\ \A y \in ClauseLits(i) : Neg(y) \in wb.A
                            /\ ~(/\ ClauseKind(i) \in {"lock", "excluded"}
                                 /\ \E z \in ClauseLits(i) : z[1] # 0 /\ SolvOfVar(z[1]) \in Range(p.soft))}
              IN Chk("C01", bad = {}, "C01_DecisionOverFalsifiedClause", bad)
         ELSE TRUE)
     /\ (IF Rec[l].tag # "implied" THEN TRUE
         ELSE /\ Chk("C02", HasClause(Rec[l].why), "C02_ReasonLogged", Rec[l].why)
              /\ (IF HasClause(Rec[l].why)
                  THEN LET c == [lits |-> ClauseLits(Rec[l].why)] IN
                       /\ Chk("C02", x \in c.lits /\ \A y \in c.lits \ {x} : Neg(y) \in wb.A,
                             "C02_ReasonIsUnit", <<Rec[l].v, Rec[l].val, Rec[l].why>>)
                       \* an implied literal lives at least as high as what implies it
                       /\ Chk("C02", \A y \in c.lits \ {x} : LvlOfVar(y[1]) <= Rec[l].lvl,
                             "C02_ImpliedBelowAntecedent", <<Rec[l].v, Rec[l].lvl, Rec[l].why>>)
                  ELSE TRUE))
     /\ wb' = [wb EXCEPT !.trail = Append(wb.trail, x), !.lv = Append(wb.lv, Rec[l].lvl), !.why = Append(wb.why, Rec[l].why), !.A = wb.A \cup {x},
                        !.inst = IF Rec[l].tag = "install" THEN wb.inst \cup {Rec[l].v} ELSE wb.inst]

Undo ==
  /\ E("undo") /\ UNCHANGED <<ctx, bb, grp>>
  /\ Chk("C05", Rec[l].len <= Len(wb.trail), "C05_UndoNotPrefix", Rec[l].len)
  \* LazyCdcl: a run for a soft requirement (starting level > 0) keeps what the runs
  \* before it established - Install cuts back to the run's starting level, PropLearn
  \* clamps its backjump to the run's first level, FailTarget returns to the starting level
  /\ Chk("C14", Rec[l].len >= wb.base, "C14_UndoBelowRunStart", <<Rec[l].len, wb.base>>)
  /\ LET n == IF Rec[l].len <= Len(wb.trail) THEN Rec[l].len ELSE Len(wb.trail)
         t == SubSeq(wb.trail, 1, n)
     IN wb' = [wb EXCEPT !.trail = t, !.lv = SubSeq(wb.lv, 1, n), !.why = SubSeq(wb.why, 1, n), !.A = Range(t)]

Learnt ==
  /\ E("learnt") /\ UNCHANGED <<ctx, bb, grp>>
  /\ LET ls == LitSet(Rec[l].lits) IN
     /\ Chk("T", Rec[l].id = Len(wb.cls) + 1, "T_ClauseIdNotDense", Rec[l].id)
     /\ Chk("C02", RUP(AllLits, ls), "C02_LearntRUP", Rec[l].id)
     /\ Chk("C03", \A i \in Range(Rec[l].why) : HasClause(i), "C03_WhyLogged", Rec[l].why)
     /\ Chk("C03", RUP({ClauseLits(i) : i \in {j \in Range(Rec[l].why) : HasClause(j)}}, ls),
              "C03_LearntFromWhy", Rec[l].id)
     /\ wb' = [wb EXCEPT !.cls = Append(wb.cls, l), !.nlearnt = wb.nlearnt + 1,
                         !.softlearnt = IF wb.base > 0 THEN wb.softlearnt + 1 ELSE wb.softlearnt]

\* learnt clauses from which a learnt clause was derived, transitively
RECURSIVE LearntAnc(_)
LearntAnc(i) == LET d == {j \in Range(Rec[wb.cls[i]].why) : HasClause(j) /\ ClauseKind(j) = "learnt"}
                IN d \cup UNION {LearntAnc(j) : j \in d}
\* coverage only: a learnt clause that is the reason of an assignment on the final trail
\* and also an ancestor of another such reason (the analysis meets it twice)
SharedLearntReason ==
  LET lr == {w \in Range(wb.why) : HasClause(w) /\ ClauseKind(w) = "learnt"}
  IN \E a \in lr : \E b \in lr : a # b /\ a \in LearntAnc(b)

\* the clause ids the solver reports for an Unsolvable verdict
UnsatIds ==
  /\ E("unsatids") /\ UNCHANGED <<ctx, bb, grp>>
  /\ wb' = [wb EXCEPT !.unsat = l]
  /\ (IF RuleOn("C03") /\ SharedLearntReason THEN Cover(<<"sharedlearntreason">>) ELSE TRUE)
  /\ Chk("C02", UP(AllLits, {<<0, 1>>}) = {<<-1, -1>>}, "C02_RUPRefutation", 0)
  /\ Chk("C03", \A i \in Range(Rec[l].ids) : HasClause(i) /\ ClauseKind(i) # "learnt",
           "C03_ReportedIds", Rec[l].ids)
  /\ Chk("C03", Unsat({ClauseLits(i) : i \in {j \in Range(Rec[l].ids) : HasClause(j)}}, {<<0, 1>>}),
           "C03_ReportedUnsat", Rec[l].ids)

(***************************************************************************)
(* results                                                                 *)
(***************************************************************************)
SolvedVarsTrue == {SolvOfVar(x[1]) : x \in {y \in wb.A : y[2] = 1 /\ y[1] # 0}} \ {-1}

\* a clause holds under the final assignment (unassigned variables read as
\* false).  Lock / exclusion clauses about a directly named soft requirement are
\* exempt: the property lets such a solvable ignore its own package's lock and
\* exclusion list.
ClauseHolds(i) ==
  \/ \E x \in ClauseLits(i) : x \in wb.A \/ (x[2] = 0 /\ <<x[1], 1>> \notin wb.A)
  \/ /\ ClauseKind(i) \in {"lock", "excluded"}
     /\ \E x \in ClauseLits(i) : x[1] # 0 /\ SolvOfVar(x[1]) \in Range(p.soft)

\* Completeness of the encoding (refinement of LazyCdcl!Encode): when a solution is
\* returned, every clause the rules demand for an installed solvable (and the
\* root) is in the database - its requirements, its constrains pairs, and the lock
\* and exclusion clauses of every package it mentions.  A missing clause means the
\* solver merely did not happen to need it on this input.
VarOfSolv(x) == IF x = 0 THEN 0
                ELSE IF \E i \in DOMAIN wb.vsolv : wb.vsolv[i][2] = x
                     THEN wb.vsolv[CHOOSE i \in DOMAIN wb.vsolv : wb.vsolv[i][2] = x][1] ELSE -1
ClauseRecs == {Rec[wb.cls[i]] : i \in {j \in DOMAIN wb.cls : Rec[wb.cls[j]].ev = "clause"}}
\* (A clause about a solvable the solver cannot select - one that is no requirement's
\* candidate and was never installed directly - is not demanded: an encoder may leave it
\* out until that solvable becomes selectable.)
MissingClauses(S) ==
  LET CR == ClauseRecs
      X == S \cup {0}
      sel == {SolvOfVar(v) : v \in UNION {Range(Concat(c.cands)) : c \in {d \in CR : d.kind = "requires"}}}
             \cup {SolvOfVar(v) : v \in wb.inst \ {0}}
      reqMissingAll == UNION {{<<"requires", x, ReqsOf(u, p, x)[i]>> :
                              i \in {j \in DOMAIN ReqsOf(u, p, x) :
                                        ~\E c \in CR : c.kind = "requires" /\ c.a = VarOfSolv(x) /\ c.vs = ReqsOf(u, p, x)[j]}}
                           : x \in X}
      conMissing == UNION {UNION {{<<"constrains", x, y>> :
                              y \in {z \in Range(NonMatch(u, ConsOf(u, p, x)[i])) \cap sel :
                                        ~\E c \in CR : c.kind = "constrains" /\ c.a = VarOfSolv(x) /\ SolvOfVar(c.b) = z}}
                                  : i \in DOMAIN ConsOf(u, p, x)} : x \in X}
      names == UNION {Mentioned(u, p, x) : x \in X}
      lockMissing == UNION {{<<"lock", n, y>> :
                              y \in {z \in (Range(Cands(u, n)) \ {u.pkg[n].locked}) \cap sel :
                                        u.pkg[n].locked # 0 /\ ~\E c \in CR : c.kind = "lock" /\ SolvOfVar(c.b) = z}}
                            : n \in {m \in names : u.pkg[m].exists}}
      exclMissing == UNION {{<<"excluded", n, y>> :
                              y \in {z \in Range(u.pkg[n].excluded) \cap sel :
                                        ~\E c \in CR : c.kind = "excluded" /\ SolvOfVar(c.a) = z}}
                            : n \in {m \in names : u.pkg[m].exists}}
  IN reqMissingAll \cup conMissing \cup lockMissing \cup exclMissing

\* Completeness of the at-most-one encoding (AtMostOne!Excl on the real clause stream):
\* any two solvable variables of one package that are candidates of some requirement
\* clash on a helper variable - one is forced to set it, the other to clear it - whether
\* or not this run needed that
ForbidRecs == {c \in ClauseRecs : c.kind = "forbid"}
HelperLits(FR, v) == UNION {LitSet(c.lits) \ {<<v, 0>>} : c \in {d \in FR : d.a = v}}
UnexcludedPairs ==
  LET FR == ForbidRecs
      \* ... and the soft requirements that were installed at some point (directly, without
      \* being anybody's candidate)
      cv == UNION {Range(Concat(c.cands)) : c \in {d \in ClauseRecs : d.kind = "requires"}}
            \cup (wb.inst \ {0})
      hl == [v \in cv |-> HelperLits(FR, v)]
  IN {pr \in cv \X cv : /\ pr[1] < pr[2]
                        /\ NameOf(u, SolvOfVar(pr[1])) = NameOf(u, SolvOfVar(pr[2]))
                        /\ ~\E x \in hl[pr[1]] : Neg(x) \in hl[pr[2]]}

ResultSat(r) ==
  LET S    == Range(r.sol)
      X    == Range(p.soft)
      why  == WhyInvalid(u, p, S, X)
      \* premises are only computed for the properties that are being checked
      cf   == (RuleOn("C07") \/ RuleOn("C09")) /\ ConflictFree(u, Hard(p))
      dbf  == RuleOn("C08") /\ DirectBestFeasible(u, p)
      ob   == IF RuleOn("C14") THEN SoftObliged(u, p) ELSE {}
      clos == PreferredClosure(u, Hard(p))
  IN
  /\ Chk("C12", ~bb.cancelSeen, "C12_ResultAfterCancel", r.kind)
  /\ Chk("C01", NoDup(r.sol), "C01_DupInSolution", r.sol)
  /\ Chk("C01", why = "", "C01_" \o why, r.sol)
  \* "and vice versa": a solution is only reported for a problem that has one
  \* (a valid solution of a problem without soft requirements is itself the witness;
  \* the oracle is only asked when there is none)
  /\ Chk("C02", ~RuleOn("C02") \/ (why = "" /\ p.soft = <<>>) \/ Satisfiable(u, p), "C02_SolutionButUnsatisfiable", r.sol)
  /\ Chk("C05", Supported(u, p, S), "C05_Unsupported", S \ SupportedSet(u, p, S))
  /\ Chk("C07", ~(cf /\ p.soft = <<>>) \/ S = clos, "C07_NotPreferred", <<r.sol, clos>>)
  /\ Chk("C08", ~dbf \/ DirectBest(u, p) \subseteq S, "C08_DirectDowngraded", <<r.sol, DirectBest(u, p)>>)
  /\ Chk("C14", ob \subseteq S, "C14_SoftNotIncluded", <<r.sol, ob>>)
  /\ Chk("C09", ~(cf /\ p.soft = <<>> /\ NoHints(u) /\ bb.prevSolves = 0 /\ why = "")
             \/ (/\ bb.dcalls = clos
                 /\ bb.ccalls = Mentioned(u, p, 0) \cup UNION {Mentioned(u, p, x) : x \in clos}),
           "C09_NotExactWhenClean", <<bb.dcalls, bb.ccalls, clos>>)
  \* white box: the final assignment falsifies no clause, and the solution is
  \* exactly the solvable variables assigned true
  /\ (IF wb.on
      THEN /\ Chk("C01", \A i \in DOMAIN wb.cls : ClauseHolds(i), "C01_DbNotSatisfied",
                    {i \in DOMAIN wb.cls : ~ClauseHolds(i)})
           /\ Chk("C05", SolvedVarsTrue = S, "C05_SolutionNotTrail", <<r.sol, SolvedVarsTrue>>)
           /\ Chk("C01", MissingClauses(S) = {}, "C01_EncodingIncomplete", MissingClauses(S))
           /\ Chk("C15", UnexcludedPairs = {}, "C15_PairNotExcluded", UnexcludedPairs)
      ELSE TRUE)
  /\ Cover(<<"sat">> \o (IF cf /\ p.soft = <<>> THEN <<"conflictfree">> ELSE <<>>)
                     \o (IF dbf THEN <<"directbest">> ELSE <<>>)
                     \o (IF ob # {} THEN <<"softobliged">> ELSE <<>>)
                     \o (IF p.soft # <<>> THEN <<"soft">> ELSE <<>>)
                     \o (IF cf /\ p.soft = <<>> /\ NoHints(u) /\ bb.prevSolves = 0 THEN <<"exactcalls">> ELSE <<>>)
                     \o (IF bb.prevSolves > 0 THEN <<"reused">> ELSE <<>>)
                     \o (IF bb.prevSolves > 0 /\ bb.callsThisSolve = 0 THEN <<"reused_nocalls">> ELSE <<>>)
                     \o (IF wb.on /\ wb.nlearnt > 0 THEN <<"learnt">> ELSE <<>>)
                     \o (IF wb.on /\ wb.nlearnt >= 3 THEN <<"learnt3">> ELSE <<>>)
                     \o (IF wb.on /\ wb.nrestart > 0 THEN <<"restarted">> ELSE <<>>)
                     \o (IF wb.on /\ wb.softlearnt > 0 THEN <<"softrun_learnt">> ELSE <<>>))

(***************************************************************************)
(* Operational model of Conflict::graph (src/conflict.rs): the conflict     *)
(* graph is a fold over the reported clauses, in the order they were        *)
(* reported.  Edges are compared up to node numbering, as a bag of          *)
(*   <<kind, source solvable (0 = root), target solvable (-1 = the          *)
(*     unresolved node, -2 = an exclusion node), version sets, locked>>.    *)
(*   requires     one edge per candidate of the requirement (the unresolved *)
(*                node if it has none), labelled with the requirement       *)
(*   constrains   parent -> forbidden candidate, labelled with the set      *)
(*   lock         root -> the other candidate, remembering the locked one   *)
(*   excluded     solvable -> exclusion node                                *)
(*   forbid       the solvables of one package named by reported forbid     *)
(*                clauses are chained in the order of the report            *)
(* This is conformance (how the code builds the picture), not the property: *)
(* C03 is decided by EdgeTrue / GroupExact / Reachable / Refutes on the     *)
(* graph the code produced.                                                 *)
(***************************************************************************)
RECURSIVE ModelEdges(_, _, _)
ModelEdges(ids, k, last) ==      \* last: <<package, solvable>> pairs (forbid chains)
  IF k > Len(ids) THEN <<>>
  ELSE IF ~HasClause(ids[k]) \/ Rec[wb.cls[ids[k]]].ev # "clause" THEN ModelEdges(ids, k + 1, last)
  ELSE LET c == Rec[wb.cls[ids[k]]] IN
       CASE c.kind = "requires" ->
              LET par == SolvOfVar(c.a)
                  cs  == Concat(c.cands)
              IN (IF cs = <<>> THEN << <<"req", par, -1, c.vs, 0>> >>
                  ELSE [i \in DOMAIN cs |-> <<"req", par, SolvOfVar(cs[i]), c.vs, 0>>])
                 \o ModelEdges(ids, k + 1, last)
         [] c.kind = "constrains" ->
              << <<"cons", SolvOfVar(c.a), SolvOfVar(c.b), c.vs, 0>> >> \o ModelEdges(ids, k + 1, last)
         [] c.kind = "lock" ->
              << <<"lock", 0, SolvOfVar(c.b), <<>>, SolvOfVar(c.a)>> >> \o ModelEdges(ids, k + 1, last)
         [] c.kind = "excluded" ->
              << <<"excl", SolvOfVar(c.a), -2, <<>>, 0>> >> \o ModelEdges(ids, k + 1, last)
         [] c.kind = "forbid" ->
              LET x    == SolvOfVar(c.a)
                  prev == {q \in last : q[1] = c.b}
                  nl   == (last \ prev) \cup {<<c.b, x>>}
              IN (IF prev = {} THEN <<>>
                  ELSE << <<"forbid", (CHOOSE q \in prev : TRUE)[2], x, <<>>, 0>> >>)
                 \o ModelEdges(ids, k + 1, nl)
         [] OTHER -> ModelEdges(ids, k + 1, last)
RealEdges(G) ==
  [e \in DOMAIN G.edges |->
     LET ed == G.edges[e]
         tn == G.nodes[ed.t]
     IN <<ed.k, NodeSolv(G, ed.s),
          IF tn.k = "unres" THEN -1 ELSE IF tn.k = "excl" THEN -2 ELSE NodeSolv(G, ed.t),
          ed.vs, ed.x>>]
BagOfSeq(q) == [x \in Range(q) |-> Cardinality({i \in DOMAIN q : q[i] = x})]
GraphAsModel(G) ==
  wb.unsat = 0 \/ BagOfSeq(RealEdges(G)) = BagOfSeq(ModelEdges(Rec[wb.unsat].ids, 1, {}))

ResultUnsat(r) ==
  LET G == r.graph
      \* the DPLL oracle is asked for every universe of up to OracleBound solvables; beyond
      \* that only when the run was recorded without hooks - with hooks the verdict is
      \* certified by the proof check of the hook stream (true facts, RUP learnt clauses,
      \* RUP refutation), which does not depend on the size of the search
      small == RuleOn("C02") /\ (Len(u.solv) <= OracleBound \/ ~wb.on)
  IN
  /\ Chk("C12", ~bb.cancelSeen, "C12_ResultAfterCancel", r.kind)
  /\ Chk("C02", ~small \/ ~Satisfiable(u, p), "C02_UnsatButSatisfiable", 0)
  /\ Chk("C03", NodesDistinct(G), "C03_NodesNotDistinct", 0)
  /\ Chk("C03", \A e \in DOMAIN G.edges : EdgeTrue(u, p, G, e), "C03_EdgeFalse",
           {e \in DOMAIN G.edges : ~EdgeTrue(u, p, G, e)})
  /\ Chk("C03", \A g \in ReqGroups(G) : GroupExact(u, G, g), "C03_GroupNotExact",
           {g \in ReqGroups(G) : ~GroupExact(u, G, g)})
  /\ Chk("C03", Reachable(G), "C03_Unreachable", 0)
  /\ Chk("C03", Refutes(u, G), "C03_NotSelfContained", 0)
  /\ Chk("C04", ~cfg.render \/ RenderOK(G, r.lines), "C04_RenderTooLong", <<r.lines, Len(G.edges)>>)
  /\ Cover(<<"unsat">> \o (IF small THEN <<"oracle">> ELSE <<>>)
                       \o (IF ~(wb.on /\ RuleOn("C03")) THEN <<>>
                           ELSE IF GraphAsModel(G) THEN <<"graph_as_model">> ELSE <<"graph_differs_from_model">>)
                       \o (IF Cardinality(SolvNodes(G)) >= 4 THEN <<"graph4">> ELSE <<>>)
                       \o (IF p.soft # <<>> THEN <<"soft">> ELSE <<>>)
                       \o (IF bb.prevSolves > 0 THEN <<"reused">> ELSE <<>>)
                       \o (IF wb.on /\ wb.nlearnt > 0 THEN <<"learnt">> ELSE <<>>)
                     \o (IF wb.on /\ wb.nlearnt >= 3 THEN <<"learnt3">> ELSE <<>>)
                     \o (IF wb.on /\ wb.nrestart > 0 THEN <<"restarted">> ELSE <<>>)
                     \o (IF wb.on /\ wb.softlearnt > 0 THEN <<"softrun_learnt">> ELSE <<>>))

\* C04 (rendering) on a graph that was assembled from the facts of the universe
\* instead of being produced by a solve (harness/src/synth.rs).  Conflict.tla decides
\* whether the graph is a conflict report in the sense of C03; only such graphs are
\* required to render within the bound (r.msg # "" : the renderer panicked or
\* overflowed the sink)
ResultSynth(r) ==
  LET G  == r.graph
      ok == /\ NodesDistinct(G)
            /\ \A e \in DOMAIN G.edges : EdgeTrue(u, p, G, e)
            /\ \A g \in ReqGroups(G) : GroupExact(u, G, g)
            /\ Reachable(G)
            /\ Refutes(u, G)
  IN
  /\ Chk("C04", ~ok \/ r.msg = "", "C04_RenderFailed", r.msg)
  /\ Chk("C04", ~ok \/ r.msg # "" \/ RenderOK(G, r.lines), "C04_RenderTooLong", <<r.lines, Len(G.edges)>>)
  /\ Cover(IF ok THEN <<"synthconflict">> \o (IF HasReqCycle(G) THEN <<"synthcycle">> ELSE <<>>)
                 ELSE <<"synthrejected">>)

ResultCancelled(r) ==
  /\ Chk("C12", bb.cancelSeen, "C12_SpuriousCancel", r.v)
  /\ Chk("C12", ~bb.cancelSeen \/ r.v = bb.cancelVal, "C12_CancelValue", <<r.v, bb.cancelVal>>)
  /\ Cover(<<"cancelled">> \o (IF bb.callsThisSolve > 0 THEN <<"cancel_after_calls">> ELSE <<>>))

\* comparison with the previous run of the same group: the verdict must not
\* depend on presentation (C02), schedule (C10); identical runs must be
\* identical in every observable (C06)
\* "unsat_nograph": an Unsolvable verdict recorded without its conflict graph
KindOf(r) == IF r.kind = "unsat_nograph" THEN "unsat" ELSE r.kind

GroupRule(r0) ==
  LET r == [r0 EXCEPT !.kind = KindOf(r0)]
      g == cfg.group
      linked == g # 0 /\ grp.id = g /\ ctx.k = 1
      comparable == r.kind \in {"sat", "unsat"} /\ grp.kind \in {"sat", "unsat"}
  IN /\ (IF linked /\ comparable /\ cfg.same \in {"verdict", "exact"}
          THEN /\ Chk("C02", r.kind = grp.kind, "C02_VerdictDiffers", <<grp.profile, grp.kind, r.kind>>)
               /\ Cover(<<"paired">>)
          ELSE TRUE)
     \* C17: the same problem through the C++ binding: identical solution sequence or
     \* identical error text
     /\ (IF linked /\ cfg.same = "result"
          THEN /\ Chk("C17", r.kind = grp.kind, "C17_VerdictDiffers", <<grp.kind, r.kind>>)
               /\ Chk("C17", r.sol = grp.sol, "C17_SolutionDiffers", <<grp.sol, r.sol>>)
               /\ Chk("C17", r.msg = grp.msg, "C17_ErrorTextDiffers", 0)
               /\ Cover(<<"cpp_paired">>)
          ELSE TRUE)
     /\ (IF linked /\ comparable /\ cfg.same = "exact"
          THEN /\ Chk("C06", r.sol = grp.sol, "C06_SolutionDiffers", <<grp.sol, r.sol>>)
               /\ Chk("C06", r.msg = grp.msg, "C06_MessageDiffers", 0)
               \* the provider call sequence is not part of the property: measured only
               /\ (IF RuleOn("C06") /\ bb.callseq # grp.calls THEN Cover(<<"callsdiffer">>) ELSE TRUE)
          ELSE TRUE)
     /\ grp' = IF g = 0 \/ ctx.k # 1 THEN grp
               ELSE [id |-> g, kind |-> r.kind, sol |-> r.sol, msg |-> r.msg, calls |-> bb.callseq,
                     profile |-> Rec[ctx.begin].profile]

Result ==
  /\ E("result") /\ UNCHANGED <<ctx, bb, wb>>
  /\ GroupRule(Rec[l])
  /\ LET r == Rec[l] IN
     CASE r.kind = "sat" ->
            \* a "solution" naming something that is not a solvable of the universe (for
            \* instance leftovers of an earlier answer in a reused result vector) cannot be
            \* judged by the rules below
            IF Range(r.sol) \subseteq DOMAIN u.solv THEN ResultSat(r)
            ELSE Fail("C01_NotASolvable", r.sol) /\ Cover(<<"sat">>)
       [] r.kind = "unsat" -> ResultUnsat(r)
       [] r.kind = "unsat_nograph" ->
            /\ Chk("C02", ~Satisfiable(u, p), "C02_UnsatButSatisfiable", 0)
            /\ Cover(<<"unsat", "oracle">>)
       [] r.kind = "cancelled" -> ResultCancelled(r)
       [] r.kind = "synth" -> ResultSynth(r)
       [] r.kind = "panic" -> Fail("C04_Panic", <<r.phase, r.site, r.msg>>)
       [] r.kind = "deadlock" -> Fail("C10_Deadlock", <<r.phase>>)
       [] r.kind = "timeout" -> Fail("C04_Timeout", <<r.phase>>)
       [] r.kind = "crash" -> Fail("C04_Crash", <<r.phase>>)
       [] OTHER -> Fail("T_UnknownResult", r.kind)

Next == \/ Begin \/ Poll \/ Verdict \/ Call \/ Ret \/ CacheQuery \/ Quiescent \/ Skip
        \/ RunSat \/ Restart \/ Var \/ ClauseEv \/ Assign \/ Undo \/ Learnt \/ UnsatIds \/ Result

Spec == Init /\ [][Next]_vars

\* every line of the file was consumed (a format / hook-stream problem otherwise)
Accepted ==
  IF TLCGet("stats").diameter - 1 = Len(Rec) THEN TRUE
  ELSE PrintT("NOTCONSUMED|" \o ToString(TLCGet("stats").diameter) \o "|" \o ToString(Len(Rec))) /\ FALSE
=============================================================================
