SPECIFICATION MCSpec
CONSTANT Family = "thorough"
INVARIANTS InvPartition InvSorted
CHECK_DEADLOCK FALSE
