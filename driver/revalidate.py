#!/usr/bin/env python3
"""revalidate.py [--props C01,C02|all] [--module M --cfg C] <trace>...

Re-runs TLC on traces that were already recorded (work/<Cxx>/*.trace) and prints a
histogram of the rule failures and cover tags: used while developing rules, so that a
new rule is first tried on thousands of real runs of the unchanged tree."""
import collections
import concurrent.futures as cf
import os
import sys

sys.path.insert(0, os.path.dirname(os.path.abspath(__file__)))
import vlib


def main():
    args = sys.argv[1:]
    props = "all"
    module, cfg = "Trace_Solve.tla", "Trace_Solve.cfg"
    while args and args[0].startswith("--"):
        if args[0] == "--props":
            props = args[1]
        elif args[0] == "--module":
            module = args[1]
        elif args[0] == "--cfg":
            cfg = args[1]
        args = args[2:]
    if props == "all":
        vlib.ENABLED_PROPS.update(f"C{i:02d}" for i in range(1, 21))
    else:
        vlib.ENABLED_PROPS.update(props.split(","))
    args = [os.path.abspath(a) for a in args]
    fails, cover, runs = collections.Counter(), collections.Counter(), 0
    first = {}
    with cf.ThreadPoolExecutor(max_workers=12) as ex:
        for t, (f, covers, begins, st) in zip(args, ex.map(
                lambda t: vlib.validate_trace(t, module, cfg, tag="reval_" + os.path.basename(os.path.dirname(t))), args)):
            runs += len(begins)
            for x in f:
                fails[x["rule"]] += 1
                first.setdefault(x["rule"], (t, x["id"], x["line"], x["info"][:300]))
            for (_i, _k, tags) in covers:
                for tg in tags:
                    cover[tg] += 1
    print("runs", runs)
    print("fails", dict(fails))
    for r, v in first.items():
        print("  first", r, v)
    print("cover", dict(cover))


if __name__ == "__main__":
    main()
