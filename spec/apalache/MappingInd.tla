----------------------------- MODULE MappingInd -----------------------------
(***************************************************************************)
(* C19, unbounded in the id VALUES: the transition relation of Mapping.tla *)
(* (same actions, same invariants) over an ARBITRARY finite set of natural *)
(* ids (Apalache draws it with Gen: any 1..6 integers, any magnitudes -    *)
(* chunk boundaries need no special alphabet here) and any non-zero        *)
(* values.  IndInv is shown inductive with Apalache:                       *)
(*    Init => IndInv                    (--init=Init    --length=0)        *)
(*    IndInv /\ Next => IndInv'         (--init=IndInit --length=1)        *)
(* so LenIsCount and MaxBounds hold after histories of ANY length.         *)
(* The module repeats Mapping.tla's actions with type annotations (the     *)
(* TLC modules carry none); spec/apalache/check.sh diffs the action bodies.*)
(***************************************************************************)
EXTENDS Integers, FiniteSets, Apalache

CONSTANTS
  \* @type: Set(Int);
  Ids,
  \* @type: Set(Int);
  Vals

VARIABLES
  \* @type: Int -> Int;
  m,
  \* @type: Int;
  len,
  \* @type: Int;
  max

ConstInit == /\ Ids = Gen(6) /\ Ids # {} /\ \A k \in Ids : k >= 0
             /\ Vals = Gen(3) /\ Vals # {} /\ \A v \in Vals : v # 0

\* @type: (Int -> Int) => Set(Int);
Present(mm) == {k \in Ids : mm[k] # 0}

Init == m = [k \in Ids |-> 0] /\ len = 0 /\ max = 0

Insert(k, v) ==
  /\ m' = [m EXCEPT ![k] = v]
  /\ len' = IF m[k] = 0 THEN len + 1 ELSE len
  /\ max' = IF k > max THEN k ELSE max

Unset(k) ==
  /\ m' = [m EXCEPT ![k] = 0]
  /\ len' = IF m[k] # 0 THEN len - 1 ELSE len
  /\ UNCHANGED max

RoundTrip ==
  /\ UNCHANGED <<m, len>>
  /\ \/ Present(m) = {} /\ max' = 0
     \/ \E x \in Present(m) : (\A y \in Present(m) : x >= y) /\ max' = x

Next == \/ \E k \in Ids, v \in Vals : Insert(k, v)
        \/ \E k \in Ids : Unset(k)
        \/ RoundTrip

LenIsCount == len = Cardinality(Present(m))
MaxBounds  == \A k \in Present(m) : k <= max
TypeOK     == /\ m \in [Ids -> Vals \cup {0}] /\ len \in Int /\ max \in Int /\ max >= 0

IndInv == TypeOK /\ LenIsCount /\ MaxBounds
\* an arbitrary state satisfying the invariant
IndInit == /\ m \in [Ids -> Vals \cup {0}]
           /\ len = Cardinality(Present(m))
           /\ max \in Ids \cup {0}
           /\ IndInv
=============================================================================
