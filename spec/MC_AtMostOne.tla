---------------------------- MODULE MC_AtMostOne ----------------------------
EXTENDS AtMostOne, TLC, Json
Key == ToJson(<<n, helpers>>)
KeyP == ToJson(<<n', helpers'>>)
RECURSIVE SetToSeqT(_)
\* clause set as a sorted sequence of [i, b, p] for comparison with the real tracker
ClsSeq(S) == LET RECURSIVE F(_)
                 F(T) == IF T = {} THEN <<>>
                         ELSE LET m == CHOOSE x \in T : \A y \in T : x[1] < y[1] \/ (x[1] = y[1] /\ x[2] <= y[2])
                              IN <<<<m[1], m[2], IF m[3] THEN 1 ELSE 0>>>> \o F(T \ {m})
             IN F(S)
SetToSeqT(S) == ClsSeq(S)
MCInit == Init /\ PrintT("INIT|" \o Key \o "|" \o ToJson([n |-> 0, helpers |-> 0, cls |-> <<>>]))
MCNext == \/ Add /\ PrintT("EDGE|" \o Key \o "|" \o ToJson([op |-> "add"]) \o "|" \o KeyP \o "|"
                          \o ToJson([n |-> n', helpers |-> helpers', cls |-> ClsSeq(cls')]))
          \/ ReAdd /\ PrintT("EDGE|" \o Key \o "|" \o ToJson([op |-> "readd"]) \o "|" \o KeyP \o "|"
                            \o ToJson([n |-> n', helpers |-> helpers', cls |-> ClsSeq(cls')]))
MCSpec == MCInit /\ [][MCNext]_vars
=============================================================================
