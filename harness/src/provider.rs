//! A `DependencyProvider` driven entirely by a universe record. It logs every
//! provider call and every cancellation poll, and (optionally) makes every
//! async method wait on a gate that the controllable runtime opens.

use std::{
    any::Any,
    cell::{Cell, RefCell},
    collections::HashMap,
    fmt::Display,
    future::Future,
    pin::Pin,
    rc::Rc,
    task::{Context, Poll, Waker},
};

use resolvo::{
    Candidates, Dependencies, DependencyProvider, HintDependenciesAvailable, Interner,
    KnownDependencies, NameId, Requirement, SolvableId, SolverCache, StringId, VersionSetId,
    VersionSetUnionId,
};
use serde_json::{json, Value};

use crate::model::*;

/// Shared event log. Hook events (from resolvo's thread-local sink) are drained
/// in front of every harness event so that the merged order is the true order.
#[derive(Default)]
pub struct Recorder {
    pub events: RefCell<Vec<Value>>,
    pub whitebox: Cell<bool>,
}

impl Recorder {
    pub fn push(&self, maps: &IdMaps, v: Value) {
        self.drain_hooks(maps);
        self.events.borrow_mut().push(v);
    }

    pub fn drain_hooks(&self, maps: &IdMaps) {
        if !self.whitebox.get() {
            return;
        }
        let evs = resolvo::verif::drain();
        if evs.is_empty() {
            return;
        }
        let mut out = self.events.borrow_mut();
        for e in evs {
            out.push(crate::hooks::to_json(maps, &e));
        }
    }
}

/// wire id <-> resolvo id
#[derive(Default, Clone)]
pub struct IdMaps {
    pub solv_to: Vec<u32>,
    pub name_to: Vec<u32>,
    pub vs_to: Vec<u32>,
    pub solv_from: HashMap<u32, u32>,
    pub name_from: HashMap<u32, u32>,
    pub vs_from: HashMap<u32, u32>,
}

impl IdMaps {
    pub fn new(u: &Universe) -> Self {
        let mk = |given: &Vec<u32>, n: usize| -> Vec<u32> {
            if given.len() == n {
                given.clone()
            } else {
                (0..n as u32).collect()
            }
        };
        let solv_to = mk(&u.idmap.solv, u.solv.len());
        let name_to = mk(&u.idmap.name, u.pkg.len());
        let vs_to = mk(&u.idmap.vs, u.vs.len());
        let inv = |v: &Vec<u32>| -> HashMap<u32, u32> {
            v.iter()
                .enumerate()
                .map(|(i, &r)| (r, i as u32 + 1))
                .collect()
        };
        IdMaps {
            solv_from: inv(&solv_to),
            name_from: inv(&name_to),
            vs_from: inv(&vs_to),
            solv_to,
            name_to,
            vs_to,
        }
    }
    pub fn sid(&self, w: u32) -> SolvableId {
        SolvableId(self.solv_to[w as usize - 1])
    }
    pub fn nid(&self, w: u32) -> NameId {
        NameId(self.name_to[w as usize - 1])
    }
    pub fn vid(&self, w: u32) -> VersionSetId {
        VersionSetId(self.vs_to[w as usize - 1])
    }
    pub fn ws(&self, s: SolvableId) -> u32 {
        *self.solv_from.get(&s.0).unwrap_or(&0)
    }
    pub fn wn(&self, n: NameId) -> u32 {
        *self.name_from.get(&n.0).unwrap_or(&0)
    }
    pub fn wv(&self, v: VersionSetId) -> u32 {
        *self.vs_from.get(&v.0).unwrap_or(&0)
    }
}

// ---------------------------------------------------------------------------
// Gates: controllable completion of provider futures
// ---------------------------------------------------------------------------

#[derive(Clone, Debug)]
pub struct GateInfo {
    pub seq: u64,
    pub kind: &'static str,
    pub arg: u32,
    pub inv: u32,
}

#[derive(Default)]
pub struct Gates {
    pub next_seq: Cell<u64>,
    /// gates created and not yet opened / dropped, in creation order
    pub pending: RefCell<Vec<GateInfo>>,
    pub wakers: RefCell<HashMap<u64, Waker>>,
    pub open: RefCell<std::collections::HashSet<u64>>,
}

impl Gates {
    pub fn open_gate(&self, seq: u64) {
        self.pending.borrow_mut().retain(|g| g.seq != seq);
        self.open.borrow_mut().insert(seq);
        if let Some(w) = self.wakers.borrow_mut().remove(&seq) {
            w.wake();
        }
    }
}

pub struct GateFuture {
    gates: Rc<Gates>,
    seq: u64,
    done: bool,
}

impl Future for GateFuture {
    type Output = ();
    fn poll(mut self: Pin<&mut Self>, cx: &mut Context<'_>) -> Poll<()> {
        if self.gates.open.borrow_mut().remove(&self.seq) {
            self.done = true;
            Poll::Ready(())
        } else {
            self.gates
                .wakers
                .borrow_mut()
                .insert(self.seq, cx.waker().clone());
            Poll::Pending
        }
    }
}

impl Drop for GateFuture {
    fn drop(&mut self) {
        if !self.done {
            // the awaiting future was dropped (cancellation, error short-circuit)
            self.gates.pending.borrow_mut().retain(|g| g.seq != self.seq);
            self.gates.wakers.borrow_mut().remove(&self.seq);
            self.gates.open.borrow_mut().remove(&self.seq);
        }
    }
}

// ---------------------------------------------------------------------------
// The provider
// ---------------------------------------------------------------------------

pub struct TableProvider {
    pub u: Rc<Universe>,
    pub maps: Rc<IdMaps>,
    pub rec: Rc<Recorder>,
    pub gates: Option<Rc<Gates>>,
    /// union content (wire vs ids) -> union id
    unions: RefCell<Vec<Vec<u32>>>,
    /// cancellation
    pub polls: Cell<u32>,
    pub cancel_at: Cell<u32>,
    pub cancel_sticky: Cell<bool>,
    pub reenter: bool,
    /// get_candidates / get_dependencies suspend twice before they answer (modes "fifo2",
    /// "lifo2"): a request future that has been polled more than once when it is dropped
    pub two_stage: bool,
    strings: RefCell<HashMap<u32, String>>,
}

pub const UNKNOWN_REASON_BASE: u32 = 1;

impl TableProvider {
    pub fn new(u: Rc<Universe>, rec: Rc<Recorder>, gates: Option<Rc<Gates>>, cfg: &Cfg) -> Self {
        let maps = Rc::new(IdMaps::new(&u));
        // union ids are handed out in order of first appearance in the universe
        // (solvable by solvable), then in order of first use by a problem
        let mut unions: Vec<Vec<u32>> = Vec::new();
        for s in &u.solv {
            for r in &s.reqs {
                if r.len() > 1 && !unions.contains(r) {
                    unions.push(r.clone());
                }
            }
        }
        TableProvider {
            u,
            maps,
            rec,
            gates,
            unions: RefCell::new(unions),
            polls: Cell::new(0),
            cancel_at: Cell::new(cfg.cancel_at),
            cancel_sticky: Cell::new(cfg.cancel_sticky),
            reenter: cfg.reenter,
            two_stage: cfg.mode.ends_with('2'),
            strings: RefCell::new(HashMap::new()),
        }
    }

    /// shares the union table of another provider over the same universe, so that
    /// union ids handed out by either mean the same
    pub fn with_unions_of(self, other: &TableProvider) -> Self {
        *self.unions.borrow_mut() = other.unions.borrow().clone();
        self
    }

    pub fn requirement(&self, r: &[u32]) -> Requirement {
        if r.len() == 1 {
            Requirement::Single(self.maps.vid(r[0]))
        } else {
            let mut unions = self.unions.borrow_mut();
            let idx = match unions.iter().position(|x| x.as_slice() == r) {
                Some(i) => i,
                None => {
                    unions.push(r.to_vec());
                    unions.len() - 1
                }
            };
            Requirement::Union(VersionSetUnionId(idx as u32))
        }
    }

    /// wire version sets of a requirement
    pub fn requirement_wire(&self, r: Requirement) -> Vec<u32> {
        match r {
            Requirement::Single(v) => vec![self.maps.wv(v)],
            Requirement::Union(id) => self.unions.borrow()[id.0 as usize].clone(),
        }
    }

    pub fn reason_excluded(&self, name_w: u32) -> StringId {
        let id = 2 * self.maps.nid(name_w).0;
        self.strings
            .borrow_mut()
            .entry(id)
            .or_insert_with(|| format!("p{name_w} excludes it"));
        StringId(id)
    }

    pub fn reason_unknown(&self, name_w: u32) -> StringId {
        let id = 2 * self.maps.nid(name_w).0 + 1;
        self.strings
            .borrow_mut()
            .entry(id)
            .or_insert_with(|| format!("dependencies of p{name_w} candidates are unknown"));
        StringId(id)
    }

    fn rank_of(&self, s_w: u32) -> usize {
        let n = self.u.solv[s_w as usize - 1].name;
        self.u.pkg[n as usize - 1]
            .rank
            .iter()
            .position(|&x| x == s_w)
            .unwrap_or(usize::MAX)
    }

    fn log(&self, v: Value) {
        self.rec.push(&self.maps, v);
    }

    async fn gate(&self, kind: &'static str, arg: u32, inv: u32) {
        if let Some(g) = &self.gates {
            let seq = g.next_seq.get();
            g.next_seq.set(seq + 1);
            g.pending.borrow_mut().push(GateInfo {
                seq,
                kind,
                arg,
                inv,
            });
            GateFuture {
                gates: g.clone(),
                seq,
                done: false,
            }
            .await;
        }
    }

    pub fn dependencies_of(&self, s_w: u32) -> Dependencies {
        let s = &self.u.solv[s_w as usize - 1];
        if !s.known {
            return Dependencies::Unknown(self.reason_unknown(s.name));
        }
        Dependencies::Known(KnownDependencies {
            requirements: s.reqs.iter().map(|r| self.requirement(r)).collect(),
            constrains: s.cons.iter().map(|&v| self.maps.vid(v)).collect(),
        })
    }

    pub fn candidates_of(&self, n_w: u32) -> Option<Candidates> {
        let p = &self.u.pkg[n_w as usize - 1];
        if !p.exists {
            return None;
        }
        let m = &self.maps;
        Some(Candidates {
            candidates: p.cands.iter().map(|&s| m.sid(s)).collect(),
            favored: if p.favored == 0 {
                None
            } else {
                Some(m.sid(p.favored))
            },
            locked: if p.locked == 0 {
                None
            } else {
                Some(m.sid(p.locked))
            },
            hint_dependencies_available: match p.hint.mode.as_str() {
                "all" => HintDependenciesAvailable::All,
                "some" => {
                    HintDependenciesAvailable::Some(p.hint.list.iter().map(|&s| m.sid(s)).collect())
                }
                _ => HintDependenciesAvailable::None,
            },
            excluded: p
                .excluded
                .iter()
                .map(|&s| (m.sid(s), self.reason_excluded(n_w)))
                .collect(),
        })
    }
}

impl Interner for TableProvider {
    fn display_solvable(&self, solvable: SolvableId) -> impl Display + '_ {
        format!("s{}", self.maps.ws(solvable))
    }
    fn display_name(&self, name: NameId) -> impl Display + '_ {
        format!("p{}", self.maps.wn(name))
    }
    fn display_version_set(&self, version_set: VersionSetId) -> impl Display + '_ {
        format!("vs{}", self.maps.wv(version_set))
    }
    fn display_string(&self, string_id: StringId) -> impl Display + '_ {
        self.strings
            .borrow()
            .get(&string_id.0)
            .cloned()
            .unwrap_or_else(|| format!("str{}", string_id.0))
    }
    fn version_set_name(&self, version_set: VersionSetId) -> NameId {
        let w = self.maps.wv(version_set);
        self.maps.nid(self.u.vs[w as usize - 1].name)
    }
    fn solvable_name(&self, solvable: SolvableId) -> NameId {
        let w = self.maps.ws(solvable);
        self.maps.nid(self.u.solv[w as usize - 1].name)
    }
    fn version_sets_in_union(
        &self,
        version_set_union: VersionSetUnionId,
    ) -> impl Iterator<Item = VersionSetId> {
        let v: Vec<VersionSetId> = self.unions.borrow()[version_set_union.0 as usize]
            .iter()
            .map(|&w| self.maps.vid(w))
            .collect();
        v.into_iter()
    }
}

impl DependencyProvider for TableProvider {
    async fn filter_candidates(
        &self,
        candidates: &[SolvableId],
        version_set: VersionSetId,
        inverse: bool,
    ) -> Vec<SolvableId> {
        let w = self.maps.wv(version_set);
        let inv = inverse as u32;
        self.log(json!({"ev":"call","kind":"filter","arg":w,"inv":inv}));
        self.gate("filter", w, inv).await;
        let vs = &self.u.vs[w as usize - 1];
        let out: Vec<SolvableId> = candidates
            .iter()
            .copied()
            .filter(|c| vs.matching.contains(&self.maps.ws(*c)) != inverse)
            .collect();
        self.log(json!({"ev":"ret","kind":"filter","arg":w,"inv":inv}));
        out
    }

    async fn get_candidates(&self, name: NameId) -> Option<Candidates> {
        let w = self.maps.wn(name);
        self.log(json!({"ev":"call","kind":"cands","arg":w,"inv":0}));
        self.gate("cands", w, 0).await;
        if self.two_stage {
            self.gate("cands", w, 0).await;
        }
        let out = self.candidates_of(w);
        self.log(json!({"ev":"ret","kind":"cands","arg":w,"inv":0}));
        out
    }

    async fn sort_candidates(&self, solver: &SolverCache<Self>, solvables: &mut [SolvableId]) {
        // the key of a sort request is the set of solvables (identified by the
        // lowest wire id plus the count; the harness never needs more)
        let ws: Vec<u32> = solvables.iter().map(|s| self.maps.ws(*s)).collect();
        let key = ws.iter().copied().min().unwrap_or(0);
        self.log(json!({"ev":"call","kind":"sort","arg":key,"inv":ws.len() as u32,"set":ws}));
        self.gate("sort", key, ws.len() as u32).await;
        if self.reenter {
            // C20: queries from inside sort_candidates
            let mut avail = Vec::new();
            for &s in solvables.iter() {
                avail.push(json!([self.maps.ws(s), solver.are_dependencies_available_for(s)]));
            }
            self.log(json!({"ev":"cachequery","kind":"avail","answers":avail}));
        }
        solvables.sort_by_key(|s| self.rank_of(self.maps.ws(*s)));
        self.log(json!({"ev":"ret","kind":"sort","arg":key,"inv":ws.len() as u32}));
    }

    async fn get_dependencies(&self, solvable: SolvableId) -> Dependencies {
        let w = self.maps.ws(solvable);
        self.log(json!({"ev":"call","kind":"deps","arg":w,"inv":0}));
        self.gate("deps", w, 0).await;
        let out = self.dependencies_of(w);
        self.log(json!({"ev":"ret","kind":"deps","arg":w,"inv":0}));
        out
    }

    fn should_cancel_with_value(&self) -> Option<Box<dyn Any>> {
        let k = self.polls.get() + 1;
        self.polls.set(k);
        let at = self.cancel_at.get();
        let fired = at != 0 && (k == at || (self.cancel_sticky.get() && k > at));
        self.log(json!({"ev":"poll","k":k,"fired":fired}));
        if fired {
            Some(Box::new(k))
        } else {
            None
        }
    }
}
