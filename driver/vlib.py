"""Shared machinery of the checks: build, generate, run, validate with TLC,
classify, write evidence.  Python standard library only."""
import collections
import concurrent.futures as cf
import json
import os
import re
import shutil
import subprocess
import sys
import time

VERIF = os.path.dirname(os.path.dirname(os.path.abspath(__file__)))
HARNESS = os.path.join(VERIF, "harness")
SPEC = os.path.join(VERIF, "spec")
WORK = os.path.join(VERIF, "work")
REPLAYS = os.path.join(VERIF, "replays")
EVIDENCE = os.path.join(VERIF, "evidence")
KNOWN = os.path.join(VERIF, "known_findings.txt")

JAVA_OPTS = "-Xss1g -Xmx3g -XX:ParallelGCThreads=2 -XX:+UseParallelGC -Dtlc2.tool.queue.IStateQueue=StateDeque"


class ToolError(Exception):
    pass


def log(*a):
    print(*a, file=sys.stderr, flush=True)


def env_offline():
    e = dict(os.environ)
    e.setdefault("CARGO_NET_OFFLINE", "true")
    return e


_built = {}


def build_harness(profile="release"):
    """Rebuilds the harness (and resolvo from /repo's working tree)."""
    if profile in _built:
        return _built[profile]
    t0 = time.time()
    cmd = ["cargo", "build", "--offline", "--quiet"]
    cmd += ["--release"] if profile == "release" else ["--profile", profile]
    r = subprocess.run(cmd, cwd=HARNESS, env=env_offline(), capture_output=True, text=True)
    if r.returncode != 0:
        raise ToolError("harness build failed:\n" + r.stderr[-4000:])
    exe = os.path.join(HARNESS, "target", profile, "vh")
    _built[profile] = exe
    log(f"[build {profile}] {time.time()-t0:.1f}s")
    return exe


def fresh_dir(path):
    shutil.rmtree(path, ignore_errors=True)
    os.makedirs(path, exist_ok=True)
    return path


def gen_cases(exe, out, plan, n, seed, variants="", whitebox=False, render=True, extra=None, first_id=1):
    if plan.startswith("corpus:"):
        # a committed corpus of inputs with a rare measured premise (driver/harvest.py); ids are
        # in a reserved range, n caps how many are used
        src = os.path.join(VERIF, "corpus", plan.split(":", 1)[1] + ".cases")
        cnt = 0
        with open(src) as fin, open(out, "w") as fo:
            for line in fin:
                if cnt >= n:
                    break
                fo.write(line)
                cnt += 1
        return cnt
    cmd = [exe, "cases", "--plan", plan, "--n", str(n), "--seed", str(seed), "--out", out,
           "--first-id", str(first_id)]
    if variants:
        cmd += ["--variants", variants]
    if whitebox:
        cmd += ["--whitebox"]
    if not render:
        cmd += ["--no-render"]
    if extra:
        cmd += extra
    r = subprocess.run(cmd, capture_output=True, text=True)
    if r.returncode != 0:
        raise ToolError(f"case generation failed ({plan}):\n" + r.stderr[-2000:])
    with open(out) as f:
        return sum(1 for _ in f)


def split_file(path, nshards, outdir, prefix):
    """Round-robin split of an NDJSON case file into shards."""
    outs = [open(os.path.join(outdir, f"{prefix}.{i}.cases"), "w") for i in range(nshards)]
    n = 0
    grp_re = re.compile(r'"group":(\d+)')
    with open(path) as f:
        for i, line in enumerate(f):
            # cases of one group stay adjacent in one shard
            m = grp_re.search(line)
            g = int(m.group(1)) if m else 0
            outs[(g if g else i) % nshards].write(line)
            n += 1
    for o in outs:
        o.close()
    return [o.name for o in outs if os.path.getsize(o.name) > 0]


def run_cases(exe, cases, trace, timeout_ms=30000):
    r = subprocess.run([exe, "run", "--cases", cases, "--out", trace, "--timeout-ms", str(timeout_ms)],
                       capture_output=True, text=True)
    if r.returncode != 0:
        raise ToolError(f"harness run failed on {cases}:\n{r.stderr[-2000:]}")
    return trace


TLC_JAR = "/opt/veriftools/tla/tla2tools.jar:/opt/veriftools/tla/CommunityModules-deps.jar"


def tlc(module, cfg, metadir, env_extra=None, workers=1, timeout=3600, extra_args=None, java_opts=None):
    """Runs TLC; returns (stdout, stats).  Raises ToolError on TLC errors
    other than invariant / postcondition reports (those are returned)."""
    e = dict(os.environ)
    e["JAVA_TOOL_OPTIONS"] = java_opts or JAVA_OPTS
    if env_extra:
        e.update(env_extra)
    fresh_dir(metadir)
    cmd = ["java", "-cp", TLC_JAR, "tlc2.TLC", "-workers", str(workers), "-config", cfg,
           "-metadir", metadir, "-cleanup", "-noGenerateSpecTE", "-checkpoint", "0"]
    if extra_args:
        cmd += extra_args
    cmd += [module]
    try:
        r = subprocess.run(cmd, cwd=SPEC, env=e, capture_output=True, text=True, timeout=timeout)
    except subprocess.TimeoutExpired:
        raise ToolError(f"TLC timeout on {module} {cfg}")
    finally:
        pass
    out = r.stdout
    shutil.rmtree(metadir, ignore_errors=True)
    st = {"states": 0, "distinct": 0, "ok": False}
    m = re.search(r"(\d+) states generated, (\d+) distinct states found", out)
    if m:
        st["states"] = int(m.group(1))
        st["distinct"] = int(m.group(2))
    st["ok"] = "Model checking completed. No error has been found." in out or "Finished in" in out
    st["returncode"] = r.returncode
    return out, st


REPORT_RE = re.compile(r'^"(RULEFAIL|COVER|BEGIN|NOTCONSUMED|EDGE|REPLAY|STAT)\|(.*)"$')


def unescape(s):
    return s.replace('\\"', '"').replace("\\\\", "\\")


def parse_reports(out):
    """Yields (kind, fields) for every report line printed by a spec."""
    for line in out.splitlines():
        m = REPORT_RE.match(line)
        if m:
            yield m.group(1), unescape(m.group(2)).split("|")


class TraceResult:
    def __init__(self):
        self.fails = []           # dicts: id, k, line, rule, info, shard
        self.cover = collections.Counter()
        self.cover_runs = collections.defaultdict(set)   # tag -> runs (case id, solve) that carry it
        self.runs = 0             # begin lines seen by TLC
        self.profiles = collections.Counter()
        self.states = 0
        self.transitions = 0
        self.shards = 0
        self.events = 0


ENABLED_PROPS = set()


def rule_env():
    """R_Cxx = "1" for every property whose rules TLC should evaluate."""
    return {f"R_C{i:02d}": ("1" if f"C{i:02d}" in ENABLED_PROPS else "0") for i in range(1, 21)}


def validate_trace(trace, module="Trace_Solve.tla", cfg="Trace_Solve.cfg", tag="t", timeout=3600):
    """TLC-validates one trace shard; returns (fails, covers, begins, stats)."""
    metadir = os.path.join(WORK, "md_" + tag + "_" + os.path.basename(trace))
    env = {"TRACE": trace}
    env.update(rule_env())
    # TLC holds the whole trace as TLA+ values: give big shards a bigger heap
    mb = os.path.getsize(trace) / 1e6
    opts = JAVA_OPTS if mb < 60 else JAVA_OPTS.replace("-Xmx3g", "-Xmx%dg" % min(10, 3 + int(mb / 25)))
    out, st = tlc(module, cfg, metadir, env_extra=env, java_opts=opts, timeout=timeout)
    fails, covers, begins = [], [], []
    notconsumed = None
    for kind, f in parse_reports(out):
        if kind == "RULEFAIL":
            fails.append({"id": int(f[0]), "k": int(f[1]), "line": int(f[2]), "rule": f[3],
                          "info": "|".join(f[4:]), "trace": trace})
        elif kind == "COVER":
            covers.append((int(f[0]), int(f[1]), f[2].split(",") if f[2] else []))
        elif kind == "BEGIN":
            begins.append((int(f[0]), int(f[1]), f[2]))
        elif kind == "NOTCONSUMED":
            notconsumed = f
    if notconsumed is not None or "Error:" in out and "No error has been found" not in out:
        # TLC stopped before the end of the file: evaluation error or malformed trace
        tail = "\n".join(l for l in out.splitlines() if not l.startswith('"'))[-3000:]
        raise ToolError(f"TLC could not consume {trace} ({notconsumed}):\n{tail}")
    if not st["ok"]:
        raise ToolError(f"TLC failed on {trace}:\n{out[-3000:]}")
    return fails, covers, begins, st


def run_and_validate(exe, case_files, tag, jobs=12, timeout_ms=30000, module="Trace_Solve.tla",
                     cfg="Trace_Solve.cfg"):
    """Runs every case shard through the harness, then validates every trace
    with TLC; both phases in parallel."""
    res = TraceResult()
    traces = []
    t0 = time.time()
    with cf.ThreadPoolExecutor(max_workers=min(jobs, 14)) as ex:
        futs = [ex.submit(run_cases, exe, c, c[:-6] + ".trace", timeout_ms) for c in case_files]
        for f in futs:
            traces.append(f.result())
    t1 = time.time()
    with cf.ThreadPoolExecutor(max_workers=jobs) as ex:
        futs = [ex.submit(validate_trace, t, module, cfg, tag) for t in traces]
        for f, t in zip(futs, traces):
            fails, covers, begins, st = f.result()
            res.fails += fails
            for (_i, _k, tags) in covers:
                for tg in tags:
                    res.cover[tg] += 1
                    res.cover_runs[tg].add((_i, _k))
            res.runs += len(begins)
            for (_i, _k, prof) in begins:
                res.profiles[prof] += 1
            res.states += st["distinct"]
            res.transitions += st["states"]
            res.shards += 1
    t2 = time.time()
    log(f"[{tag}] harness {t1-t0:.1f}s, TLC {t2-t1:.1f}s, {res.runs} runs, {res.transitions} events, "
        f"{len(res.fails)} rule failures")
    res.traces = traces
    return res


# rules that judge what a run RETURNED (or that it did not return): they do not depend on the
# hook stream having been followed
RESULT_RULE_RE = re.compile(r"^(C04_(Panic|Timeout|Crash)|C10_Deadlock|C01_(V_\w+|DupInSolution|NotASolvable)|"
                            r"C02_(UnsatButSatisfiable|SolutionButUnsatisfiable|VerdictDiffers)|C12_\w+|C17_\w+|C06_\w+)$")


def first_fail_per_run(fails):
    """Only the first rule failure of a run is reported (later ones may be consequences).
    A tool-level failure (T_*: the hook stream could not be followed, e.g. clause ids that do
    not restart) must not hide what the run returned: if the same run also breaks a rule
    about its RESULT, that one is reported; step rules after a T failure are not trusted."""
    best, tool = {}, set()
    ordered = sorted(fails, key=lambda x: (x["id"], x["k"], x["line"]))
    for f in ordered:
        if f["rule"].startswith("T_"):
            tool.add((f["id"], f["k"]))
    for f in ordered:
        key = (f["id"], f["k"])
        if key in tool and not f["rule"].startswith("T_") and not RESULT_RULE_RE.match(f["rule"]):
            continue
        cur = best.get(key)
        if cur is None or (cur["rule"].startswith("T_") and not f["rule"].startswith("T_")):
            best[key] = f
    return list(best.values())


def extract_run(trace, case_id):
    """Returns the trace lines of one case (all solves of it)."""
    out = []
    keep = False
    with open(trace) as f:
        for line in f:
            if '"ev":"begin"' in line:
                ev = json.loads(line)
                if ev.get("ev") == "begin":
                    keep = ev.get("id") == case_id
            if keep:
                out.append(line.rstrip("\n"))
    return out


def load_known():
    items = []
    if os.path.exists(KNOWN):
        with open(KNOWN) as f:
            for line in f:
                line = line.strip()
                # "finding: {json}" = open finding; "fixed: ..." lines suppress nothing
                if line.startswith("finding:"):
                    items.append(json.loads(line[len("finding:"):]))
    return items


def write_replay(prop, fail, extra=None):
    d = os.path.join(REPLAYS, prop)
    os.makedirs(d, exist_ok=True)
    path = os.path.join(d, f"case{fail['id']}_{fail['rule']}.json")
    lines = extract_run(fail["trace"], fail["id"]) if fail.get("trace") else []
    rec = {"property": prop, "rule": fail["rule"], "info": fail.get("info", ""),
           "case_id": fail["id"], "solve": fail.get("k", 1), "trace_line": fail.get("line"),
           "trace": [json.loads(x) for x in lines]}
    if extra:
        rec.update(extra)
    with open(path, "w") as f:
        json.dump(rec, f)
    return path


def write_evidence(prop, tier, seed, level, coverage, wall, violations, assumptions):
    os.makedirs(EVIDENCE, exist_ok=True)
    ev = {"property_id": prop, "tier": tier, "seed": seed, "level": level, "coverage": coverage,
          "assumptions": assumptions, "wall_s": round(wall, 1), "violations": violations}
    with open(os.path.join(EVIDENCE, f"{prop}.json"), "w") as f:
        json.dump(ev, f, indent=1)
