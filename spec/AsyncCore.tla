----------------------------- MODULE AsyncCore ------------------------------
(***************************************************************************)
(* Layer B: the protocol between Encoder (src/solver/encoding.rs),         *)
(* SolverCache (src/solver/cache.rs) and an asynchronous provider, for one *)
(* `encode` of a set of solvables whose assignment does not change (the    *)
(* first encode of a solve: only the root is assigned).                    *)
(*                                                                         *)
(* The encoder keeps a set of tasks (futures in FuturesUnordered):         *)
(*   deps x   wait for the dependency record of x, then spawn pkg / req /  *)
(*            con tasks for what it mentions                (queue_solvable) *)
(*   pkg n    wait for the candidates of package n          (queue_package) *)
(*   req x r  one sub-future per version set of r: candidates of its       *)
(*            package, then ITS OWN filter_candidates request, then ITS    *)
(*            OWN sort_candidates request; when all are done, candidates   *)
(*            whose dependencies are cheaply available are queued eagerly  *)
(*   con x v  candidates of the package, then its own inverse filter       *)
(* get_candidates requests are shared through the in-flight table (one per *)
(* package however many tasks wait for it); get_dependencies is requested  *)
(* once per solvable (clauses_added_for_solvable); filter / sort requests  *)
(* are per task.                                                           *)
(*                                                                         *)
(* All tasks run on the solver's thread until each is blocked on a         *)
(* provider request, so the model takes one step per completed request:    *)
(* Complete(r) followed by RunToQuiescence.  States are exactly the        *)
(* quiescent points the gate runtime observes.                             *)
(***************************************************************************)
EXTENDS Universe

\* the universe and the problem are parameters (declared as variables so that an
\* instantiating module may substitute state-level expressions for them)
VARIABLES u, p

\* TRUE: a get_candidates request whose future is dropped (cancellation) removes its
\* in-flight marker (the code as repaired, cache.rs InFlightGuard); FALSE: the marker
\* stays behind (the code as shipped at the pinned commit)
CONSTANT CleanupOnDrop

Hinted(n) == IF ~u.pkg[n].exists THEN {}
             ELSE IF u.pkg[n].hint.mode = "all" THEN Range(u.pkg[n].cands)
             ELSE IF u.pkg[n].hint.mode = "some" THEN Range(u.pkg[n].hint.list) ELSE {}
MinOf(S) == IF S = {} THEN 0 ELSE CHOOSE x \in S : \A y \in S : x <= y

\* request keys as the provider sees them: <<kind, arg, inv>>
KCands(n) == <<"cands", n, 0>>
KDeps(x) == <<"deps", x, 0>>
KFilter(v, inv) == <<"filter", v, inv>>
KSort(v) == <<"sort", MinOf(MatchSet(u, v)), Cardinality(MatchSet(u, v))>>

HasReq(st, key) == \E r \in st.reqs : r.key = key
\* `issued` counts how often each key has been requested (a bag, so that states
\* do not depend on the order of completions)
AddReq(st, key, kind, a, inv, owner, oi) ==
  [st EXCEPT !.reqs = st.reqs \cup {[key |-> key, kind |-> kind, a |-> a, inv |-> inv, owner |-> owner, oi |-> oi]},
             !.issued = IF key \in st.issued THEN st.issued ELSE st.issued \cup {key},
             !.twice = IF key \in st.issued THEN st.twice \cup {key} ELSE st.twice]
\* get_candidates / get_dependencies requests: the solver polls for cancellation
\* right before it would start one; candidates requests are shared through the
\* in-flight table (a task finding a marker listens instead of asking again)
Ensure(st, key, kind, a) ==
  IF HasReq(st, key) THEN st
  ELSE IF kind = "cands" /\ a \in st.inflight THEN st            \* listen on a marker (possibly stale)
  ELSE IF st.cancel THEN [st EXCEPT !.aborted = TRUE]
  ELSE LET s1 == AddReq(st, key, kind, a, 0, 0, 0) IN
       IF kind = "cands" THEN [s1 EXCEPT !.inflight = s1.inflight \cup {a}] ELSE s1
\* a task is identified by what it is for: <<kind, solvable, requirement, version set / name>>
Tid(k, x, r, v) == <<k, x, r, v>>
NewTask(st, k, x, r, v, sub) ==
  [st EXCEPT !.tasks = st.tasks \cup {[tid |-> Tid(k, x, r, v), k |-> k, x |-> x, r |-> r, v |-> v, sub |-> sub]}]
SetSub(st, t, i, stage) == [st EXCEPT !.tasks = (st.tasks \ {t}) \cup {[t EXCEPT !.sub[i] = stage]}]

RECURSIVE SpawnPkgs(_, _)
SpawnPkgs(st, ns) ==
  IF ns = {} THEN st
  ELSE LET n == CHOOSE n \in ns : TRUE IN
       SpawnPkgs(IF n \in st.addP THEN st
                 ELSE NewTask([st EXCEPT !.addP = st.addP \cup {n}], "pkg", 0, <<>>, n, <<"W">>), ns \ {n})
RECURSIVE SpawnReqs(_, _, _)
SpawnReqs(st, x, rs) ==
  IF rs = <<>> THEN st
  ELSE SpawnReqs(NewTask(st, "req", x, Head(rs), 0, [i \in DOMAIN Head(rs) |-> "N"]), x, Tail(rs))
RECURSIVE SpawnCons(_, _, _)
SpawnCons(st, x, cs) ==
  IF cs = <<>> THEN st ELSE SpawnCons(NewTask(st, "con", x, <<>>, Head(cs), <<"N">>), x, Tail(cs))
RECURSIVE SpawnSolv(_, _)
SpawnSolv(st, cs) ==
  IF cs = {} THEN st
  ELSE LET c == CHOOSE c \in cs : TRUE IN
       SpawnSolv(IF c \in st.addS THEN st
                 ELSE NewTask([st EXCEPT !.addS = st.addS \cup {c}], "deps", c, <<>>, 0, <<"W">>), cs \ {c})

\* one attempt to advance sub-future i (version set v; inv = 1: the non-matching chain)
AdvSub(st, t, i, v, inv) ==
  LET stage == t.sub[i]
      n == u.vs[v].name IN
  IF stage = "N" THEN
     IF inv = 0 /\ v \in st.cS THEN SetSub(st, t, i, "D")
     ELSE IF <<v, inv>> \in st.cM
          THEN (IF inv = 0 THEN SetSub(AddReq(st, KSort(v), "sort", v, 0, t.tid, i), t, i, "S")
                ELSE SetSub(st, t, i, "D"))
     ELSE IF n \in st.cC THEN SetSub(AddReq(st, KFilter(v, inv), "filter", v, inv, t.tid, i), t, i, "F")
     ELSE SetSub(Ensure(st, KCands(n), "cands", n), t, i, "C")
  ELSE IF stage = "C"
       THEN (IF n \in st.cC THEN SetSub(AddReq(st, KFilter(v, inv), "filter", v, inv, t.tid, i), t, i, "F") ELSE st)
  ELSE IF stage = "G" THEN SetSub(AddReq(st, KSort(v), "sort", v, 0, t.tid, i), t, i, "S")
  ELSE st

Adv(st, t) ==
  IF t.k = "deps" THEN
     IF t.x = 0 \/ t.x \in st.cD
     THEN LET s1 == [st EXCEPT !.tasks = st.tasks \ {t}, !.received = st.received \cup {t.x}] IN
          SpawnCons(SpawnReqs(SpawnPkgs(s1, Mentioned(u, p, t.x)), t.x, ReqsOf(u, p, t.x)), t.x, ConsOf(u, p, t.x))
     ELSE Ensure(st, KDeps(t.x), "deps", t.x)
  ELSE IF t.k = "pkg"
       THEN (IF t.v \in st.cC THEN [st EXCEPT !.tasks = st.tasks \ {t}] ELSE Ensure(st, KCands(t.v), "cands", t.v))
  ELSE IF t.k = "req" THEN
     IF \A i \in DOMAIN t.sub : t.sub[i] = "D"
     THEN LET cs == UNION {MatchSet(u, t.r[i]) : i \in DOMAIN t.r} IN
          SpawnSolv([st EXCEPT !.tasks = st.tasks \ {t}, !.done = st.done \cup {<<t.x, t.r>>}],
                    {c \in cs : c \in st.H \/ c \in st.cD})
     ELSE LET RECURSIVE Go(_, _)
              Go(ss, i) == IF i > Len(t.sub) THEN ss
                           ELSE LET cur == CHOOSE tt \in ss.tasks : tt.tid = t.tid IN
                                Go(AdvSub(ss, cur, i, t.r[i], 0), i + 1)
          IN Go(st, 1)
  ELSE \* con
     IF t.sub[1] = "D" THEN [st EXCEPT !.tasks = st.tasks \ {t}, !.done = st.done \cup {<<t.x, <<t.v>>, "con">>}]
     ELSE AdvSub(st, t, 1, t.v, 1)

\* an observed cancellation makes encode return at once: every task and every
\* outstanding provider future is dropped
Dropped(st) == [st EXCEPT !.tasks = {}, !.reqs = {}, !.aborted = FALSE, !.wasCancelled = TRUE,
                          !.inflight = IF CleanupOnDrop THEN {} ELSE st.inflight]
RECURSIVE RTQ(_)
RTQ(st) == IF st.aborted THEN Dropped(st)
           ELSE IF \E t \in st.tasks : Adv(st, t) # st
           THEN RTQ(Adv(st, CHOOSE t \in st.tasks : Adv(st, t) # st))
           ELSE st

\* the provider answers request r
Complete(st, r) ==
  LET s1 == [st EXCEPT !.reqs = st.reqs \ {r}] IN
  IF r.kind = "cands" THEN [s1 EXCEPT !.cC = st.cC \cup {r.a}, !.H = st.H \cup Hinted(r.a),
                                      !.inflight = st.inflight \ {r.a}]
  ELSE IF r.kind = "deps" THEN [s1 EXCEPT !.cD = st.cD \cup {r.a}]
  ELSE LET t == CHOOSE t \in st.tasks : t.tid = r.owner IN
       IF r.kind = "filter"
       THEN SetSub([s1 EXCEPT !.cM = st.cM \cup {<<r.a, r.inv>>}], t, r.oi, IF t.k = "con" THEN "D" ELSE "G")
       ELSE SetSub([s1 EXCEPT !.cS = st.cS \cup {r.a}], t, r.oi, "D")

S0 == [cC |-> {}, cD |-> {}, cM |-> {}, cS |-> {}, H |-> {}, addS |-> {0}, addP |-> {}, reqs |-> {},
       issued |-> {}, twice |-> {}, received |-> {}, done |-> {},
       inflight |-> {}, cancel |-> FALSE, aborted |-> FALSE, wasCancelled |-> FALSE, solves |-> 1,
       tasks |-> {[tid |-> Tid("deps", 0, <<>>, 0), k |-> "deps", x |-> 0, r |-> <<>>, v |-> 0, sub |-> <<"W">>]}]

\* the next solve on the same solver: the solver state is reset, the cache (and
\* whatever in-flight markers were left behind) is kept, cancellation is withdrawn
NextSolveState(st) ==
  [st EXCEPT !.addS = {0}, !.addP = {}, !.received = {}, !.done = {}, !.issued = {}, !.twice = {},
             !.cancel = FALSE, !.wasCancelled = FALSE, !.solves = st.solves + 1,
             !.tasks = {[tid |-> Tid("deps", 0, <<>>, 0), k |-> "deps", x |-> 0, r |-> <<>>, v |-> 0, sub |-> <<"W">>]}]

(***************************************************************************)
(* Properties, for every completion order                                  *)
(***************************************************************************)
Finished(s) == s.tasks = {} /\ s.reqs = {}
\* C10: the encoder never waits on something that cannot complete
NoDeadlock(s) == s.tasks # {} => s.reqs # {}
\* C10: candidates of a package / dependencies of a solvable are requested at most once
NoDuplicateCall(s) == \A key \in s.twice : key[1] \in {"filter", "sort"}
\* C11: whenever the solver is blocked, every package mentioned by a dependency
\* record it has received has its candidates cached or requested
MaxIssued(s) == \A x \in s.received : \A n \in Mentioned(u, p, x) : n \in s.cC \/ HasReq(s, KCands(n))
\* C09: only solvables that are candidates of a requirement of a received record
Causal(s) == \A key \in s.issued :
     key[1] = "deps" =>
        \E x \in s.received : \E j \in DOMAIN ReqsOf(u, p, x) : \E k \in DOMAIN ReqsOf(u, p, x)[j] :
            key[2] \in MatchSet(u, ReqsOf(u, p, x)[j][k])
\* what an encode adds does not depend on the completion order: the set of
\* encoded solvables is the closure over "hinted candidate of a requirement of an
\* encoded solvable", every requirement / constraint of each of them is delivered
\* (dependencies fetched by an earlier solve count like hints; set by the caller)
AlreadyFetched == {}
RECURSIVE EagerClosure(_)
EagerClosure(X) ==
  LET names == UNION {Mentioned(u, p, x) : x \in X}
      hinted == UNION {Hinted(n) : n \in names}
      X2 == X \cup {c \in hinted \cup AlreadyFetched : \E x \in X : \E j \in DOMAIN ReqsOf(u, p, x) : \E k \in DOMAIN ReqsOf(u, p, x)[j] :
                                     c \in MatchSet(u, ReqsOf(u, p, x)[j][k])}
  IN IF X2 = X THEN X ELSE EagerClosure(X2)
ResultIndependent(s) ==
  (Finished(s) /\ ~s.wasCancelled) => /\ s.addS = EagerClosure({0})
              /\ s.addP = UNION {Mentioned(u, p, x) : x \in s.addS}
              /\ \A x \in s.addS : \A j \in DOMAIN ReqsOf(u, p, x) : <<x, ReqsOf(u, p, x)[j]>> \in s.done
=============================================================================
