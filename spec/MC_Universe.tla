---------------------------- MODULE MC_Universe ----------------------------
(* Sanity of the oracle (Layer A) itself: on every case of the file, the fast
   definitions agree with the naive ones and the closure operators satisfy their
   own contracts.  An error here would otherwise surface as a false alarm (or a
   missed violation) of every check that uses the oracle. *)
EXTENDS Universe, CaseFile, TLC

VARIABLE ci
U == Cases[ci].u
P == Cases[ci].ps[1]

Init == ci = 1
Next == ci < Len(Cases) /\ ci' = ci + 1
Spec == Init /\ [][Next]_ci

Small == SearchSpace(U) <= 3000
WellFormed == WF(U, P)
\* DPLL over the reference encoding = recursive search = naive enumeration
SatAgree == Satisfiable(U, P) = SatisfiableSearch(U, P)
SatNaiveAgree == Small => (Satisfiable(U, P) = SatisfiableNaive(U, P))
DirectAgree == DirectBestFeasible(U, P) = DirectBestFeasibleSearch(U, P)
\* a conflict-free problem's closure is a valid selection, and it is satisfiable
ClosureValid == ConflictFree(U, Hard(P)) =>
                   /\ Valid(U, Hard(P), PreferredClosure(U, Hard(P)), {})
                   /\ Supported(U, Hard(P), PreferredClosure(U, Hard(P)))
                   /\ Satisfiable(U, P)
\* Sorted is a permutation of Match with the favored candidate first
SortedOK == \A v \in VSets(U) :
   /\ Range(Sorted(U, v)) = MatchSet(U, v) /\ Len(Sorted(U, v)) = Len(Match(U, v))
   /\ (U.pkg[U.vs[v].name].favored \in MatchSet(U, v) => Sorted(U, v)[1] = U.pkg[U.vs[v].name].favored)
\* obliged soft solvables are installable together with the hard closure
SoftObligedOK == LET ob == SoftObliged(U, P) IN
   ob # {} => \E S \in {PreferredClosure(U, Hard(P)) \cup ob} : V_OnePerName(U, S)
DirectBestImpliesSat == DirectBestFeasible(U, P) => Satisfiable(U, P)
=============================================================================
