#!/usr/bin/env python3
"""Binding demonstrations (not a registered check): records a few real traces,
corrupts one field / drops one line at a time, and shows that TLC rejects the
corrupted trace with the expected rule while accepting the original.
Writes evidence/selfcheck.json."""
import copy
import json
import os
import sys

sys.path.insert(0, os.path.dirname(os.path.abspath(__file__)))
import vlib

vlib.ENABLED_PROPS.update(f"C{i:02d}" for i in range(1, 21))


def load(path):
    return [json.loads(l) for l in open(path)]


def dump(lines, path):
    with open(path, "w") as f:
        for l in lines:
            f.write(json.dumps(l) + "\n")


def rules(path):
    fails, covers, begins, st = vlib.validate_trace(path, tag="self")
    return sorted({f["rule"] for f in fails})


def first_index(lines, pred):
    for i, l in enumerate(lines):
        if pred(l):
            return i
    return None


def main():
    exe = vlib.build_harness("release")
    wd = vlib.fresh_dir(os.path.join(vlib.WORK, "selfcheck"))
    cases = os.path.join(wd, "c.cases")
    vlib.gen_cases(exe, cases, "solve:midconflict,clean", 60, 3, "", whitebox=True)
    trace = os.path.join(wd, "c.trace")
    vlib.run_cases(exe, cases, trace)
    lines = load(trace)
    base = rules(trace)
    results = [{"corruption": "none (original trace)", "rules_broken": base, "expected": "none", "ok": base == []}]

    def experiment(name, expect, mutate):
        ls = copy.deepcopy(lines)
        if mutate(ls) is False:
            results.append({"corruption": name, "skipped": "no suitable line in the sample"})
            return
        p = os.path.join(wd, "mut.trace")
        dump(ls, p)
        try:
            r = rules(p)
        except vlib.ToolError as e:
            r = ["TOOL_ERROR: " + str(e)[:120]]
        results.append({"corruption": name, "rules_broken": r, "expected": expect,
                        "ok": any(x.startswith(expect) for x in r)})

    def flip_learnt(ls):
        i = first_index(ls, lambda l: l["ev"] == "learnt" and len(l["lits"]) >= 2)
        if i is None:
            return False
        ls[i]["lits"][0][1] = 1 - ls[i]["lits"][0][1]
    experiment("flip the polarity of one literal of a learnt clause", "C02_LearntRUP", flip_learnt)

    def drop_why(ls):
        i = first_index(ls, lambda l: l["ev"] == "learnt" and len(l["why"]) >= 2)
        if i is None:
            return False
        ls[i]["why"] = ls[i]["why"][:1]
    experiment("forget all but one antecedent of a learnt clause", "C03_LearntFromWhy", drop_why)

    def change_solution(ls):
        i = first_index(ls, lambda l: l["ev"] == "result" and l["kind"] == "sat" and len(l["sol"]) >= 2)
        if i is None:
            return False
        ls[i]["sol"] = ls[i]["sol"][:-1]
    experiment("remove one solvable from a returned solution", "C0", change_solution)

    def dup_call(ls):
        i = first_index(ls, lambda l: l["ev"] == "call" and l["kind"] == "deps")
        if i is None:
            return False
        ls.insert(i + 2, copy.deepcopy(ls[i]))
        ls.insert(i + 3, dict(ls[i], ev="ret"))
    experiment("repeat one get_dependencies call", "C09_DupDeps", dup_call)

    def wrong_reason(ls):
        i = first_index(ls, lambda l: l["ev"] == "assign" and l["tag"] == "implied" and l["why"] > 2)
        if i is None:
            return False
        ls[i]["why"] = 2 if ls[i]["why"] != 2 else 3
    experiment("attribute a propagated assignment to another clause", "C02_ReasonIsUnit", wrong_reason)

    def drop_hook_line(ls):
        i = first_index(ls, lambda l: l["ev"] == "clause" and l["id"] > 1)
        if i is None:
            return False
        del ls[i]
    experiment("remove one clause event (a lost hook)", "T_ClauseIdNotDense", drop_hook_line)

    def unsat_to_sat_graph(ls):
        i = first_index(ls, lambda l: l["ev"] == "result" and l["kind"] == "unsat" and len(l["graph"]["edges"]) >= 3)
        if i is None:
            return False
        ls[i]["graph"]["edges"] = ls[i]["graph"]["edges"][:-1]
    experiment("drop one edge of a conflict graph", "C03_", unsat_to_sat_graph)

    # the small trace specifications: one recorded history each, one field corrupted
    import subprocess
    for (cmd, spec, field, expect) in (("pool-histories", "Trace_Pool", "ret", "C18_Id"),
                                       ("pool-histories", "Trace_Pool", "stable", "C18_ReferenceChanged"),
                                       ("mapping-histories", "Trace_Mapping", "len", "C19_Len")):
        t = os.path.join(wd, cmd + ".trace")
        subprocess.run([exe, cmd, "--n", "2", "--seed", "7", "--out", t] + (["--ops", "300"] if "pool" in cmd else []),
                       check=True)
        hl = load(t)
        f0, _, _, _ = vlib.validate_trace(t, spec + ".tla", spec + ".cfg", tag="self")
        i = [k for k, l in enumerate(hl) if l["ev"] == "op"][len(hl) // 3]
        hl[i][field] = (not hl[i][field]) if isinstance(hl[i][field], bool) else hl[i][field] + 1
        p = os.path.join(wd, "mut_" + cmd + ".trace")
        dump(hl, p)
        f1, _, _, _ = vlib.validate_trace(p, spec + ".tla", spec + ".cfg", tag="self")
        r = sorted({f["rule"] for f in f1})
        results.append({"corruption": f"{spec}: change the field '{field}' of one recorded operation",
                        "original_accepted": f0 == [], "rules_broken": r, "expected": expect,
                        "ok": f0 == [] and expect in r})

    ok = all(r.get("ok", True) for r in results)
    os.makedirs(vlib.EVIDENCE, exist_ok=True)
    json.dump({"binding_demonstrations": results, "all_as_expected": ok},
              open(os.path.join(vlib.EVIDENCE, "selfcheck.json"), "w"), indent=1)
    for r in results:
        print(r)
    return 0 if ok else 1


if __name__ == "__main__":
    sys.exit(main())
