SPECIFICATION MCSpec
CONSTANTS
  Handles = {1, 2, 3}
  Vals = {1}
  MaxLen = 2
  MaxBuf = 1000
VIEW View
INVARIANTS RefCountExact NoDangling NoLeak StaticIntact
PROPERTY ValueSemantics
CHECK_DEADLOCK FALSE
