#!/usr/bin/env python3
"""harvest.py <name> <rules-of-props> <plan> <n> <seed> <cover-tag> [max]

Builds a corpus of inputs with a RARE measured premise: generates n cases of <plan>, runs
them through the real solver (hooks on), lets TLC validate the traces and keeps the cases
whose run carries <cover-tag> (a COVER tag printed by spec/Trace_Solve.tla, i.e. a premise
TLC found to hold on that run).  The kept cases are written, renumbered into a reserved id
range, to corpus/<name>.cases; a plan entry "corpus:<name>" replays them in a check.
Run on the unchanged tree only (a violation aborts the harvest)."""
import json
import os
import sys

sys.path.insert(0, os.path.dirname(os.path.abspath(__file__)))
import vlib

RANGES = {}   # name -> first id, assigned below from a hash-free table in corpus/INDEX.json


def main():
    name, props, plan, n, seed, tag = sys.argv[1:7]
    n, seed = int(n), int(seed)
    cap = int(sys.argv[7]) if len(sys.argv) > 7 else 400
    vlib.ENABLED_PROPS.clear()
    vlib.ENABLED_PROPS.update(props.split(","))
    exe = vlib.build_harness("release")
    wd = vlib.fresh_dir(os.path.join(vlib.WORK, "_harvest"))
    allc = os.path.join(wd, "all")
    cnt = vlib.gen_cases(exe, allc, plan, n, seed, "", whitebox=True, first_id=1)
    files = vlib.split_file(allc, max(1, min(28, cnt // 200 + 1)), wd, "p")
    import concurrent.futures as cf
    traces = []
    with cf.ThreadPoolExecutor(max_workers=12) as ex:
        traces = list(ex.map(lambda c: vlib.run_cases(exe, c, c[:-6] + ".trace"), files))
    keep, fails = set(), 0
    with cf.ThreadPoolExecutor(max_workers=12) as ex:
        for f, covers, begins, st in ex.map(lambda t: vlib.validate_trace(t, tag="harvest"), traces):
            fails += len(f)
            for (cid, _k, tags) in covers:
                if tag in tags:
                    keep.add(cid)
    if fails:
        print(f"{fails} rule failures while harvesting: not on a clean tree?", file=sys.stderr)
        return 1
    cdir = os.path.join(vlib.VERIF, "corpus")
    os.makedirs(cdir, exist_ok=True)
    idx_path = os.path.join(cdir, "INDEX.json")
    idx = json.load(open(idx_path)) if os.path.exists(idx_path) else {}
    base = idx.get(name, {}).get("first_id") or (60_000_000 + 100_000 * len(idx))
    out = os.path.join(cdir, name + ".cases")
    k = 0
    with open(allc) as fin, open(out, "w") as fo:
        for line in fin:
            c = json.loads(line)
            if c["id"] in keep and k < cap:
                c["id"] = base + k
                c["cfg"]["group"] = 0
                c["profile"] = c["profile"] + "@" + name
                fo.write(json.dumps(c, separators=(",", ":")) + "\n")
                k += 1
    idx[name] = {"first_id": base, "cases": k, "plan": plan, "generated": cnt, "seed": seed, "premise": tag,
                 "with_premise": len(keep)}
    json.dump(idx, open(idx_path, "w"), indent=1)
    print(f"{name}: {len(keep)} of {cnt} cases carry '{tag}', {k} kept in {out}")
    return 0


if __name__ == "__main__":
    sys.exit(main())
