SPECIFICATION TSpec
INVARIANTS
  TrailConsistent WatchesConsistent T_C01_ValidOnSat T_C05_Supported T_NoClauseFalsified
  TReport
CHECK_DEADLOCK FALSE
