//! One static archive for the C++ drivers: the binding under test
//! (resolvo_cpp, built from /repo's working tree) plus a few `extern "C"`
//! helpers that perform container operations on the RUST side of the FFI, so
//! that the copy-on-write protocol is exercised from both sides (C17).
pub use resolvo_cpp::*;

use resolvo_cpp::verif::{String as RString, Vector};
use std::ffi::c_void;

macro_rules! vec_ffi {
    ($clone:ident, $push:ident, $from:ident, $consume:ident, $t:ty, $mk:expr, $val:expr) => {
        /// Rust-side copy: `out` (a default vector) becomes a clone of `src`
        #[no_mangle]
        pub extern "C" fn $clone(src: &Vector<$t>, out: &mut Vector<$t>) {
            // `out` is a freshly default-constructed vector (the static empty one): it is
            // overwritten without being dropped - nothing is owned by it - so that every
            // Rust-side clone really adds one reference, also to the static empty header
            unsafe { std::ptr::write(out, src.clone()) };
        }
        /// Rust-side push (detaches a shared buffer first)
        #[no_mangle]
        pub extern "C" fn $push(v: &mut Vector<$t>, x: u32) {
            v.push($mk(x));
        }
        /// Rust-side construction from values (FromIterator)
        #[no_mangle]
        pub unsafe extern "C" fn $from(vals: *const u32, n: usize, out: &mut Vector<$t>) {
            let s = if n == 0 { &[][..] } else { std::slice::from_raw_parts(vals, n) };
            // an iterator without size hint, so that the growth path of from_iter runs
            *out = s.iter().copied().filter(|_| true).map($mk).collect();
        }
        /// Ownership of the vector passes to Rust, which reads k elements through
        /// into_iter and drops the rest.  `raw` is the vector's single pointer field.
        /// Returns a digest of what was read: sum over i of (i + 1) * 10^i-ish weights.
        #[no_mangle]
        pub unsafe extern "C" fn $consume(raw: *mut c_void, k: usize) -> u64 {
            let v: Vector<$t> = std::mem::transmute::<*mut c_void, Vector<$t>>(raw);
            let mut it = v.into_iter();
            let mut digest: u64 = 0;
            for _ in 0..k {
                if let Some(x) = it.next() {
                    digest = digest * 10 + $val(&x);
                } else {
                    digest = digest * 10 + 9;
                }
            }
            drop(it);
            digest
        }
    };
}

vec_ffi!(
    verif_vec_u32_clone,
    verif_vec_u32_push,
    verif_vec_u32_from,
    verif_vec_u32_consume,
    u32,
    |x: u32| x,
    |x: &u32| *x as u64
);
vec_ffi!(
    verif_vec_str_clone,
    verif_vec_str_push,
    verif_vec_str_from,
    verif_vec_str_consume,
    RString,
    |x: u32| RString::from(format!("s{x}").as_str()),
    |x: &RString| x.to_string()[1..].parse::<u64>().unwrap()
);
