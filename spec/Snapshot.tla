------------------------------ MODULE Snapshot ------------------------------
(***************************************************************************)
(* C16: what DependencySnapshot::from_provider must capture and what a     *)
(* SnapshotProvider over it must answer.                                   *)
(*                                                                         *)
(* Capture(U, seeds) is the breadth-first closure of snapshot.rs as a set  *)
(* computation: a package brings its listed and excluded solvables, a      *)
(* solvable brings its package and the version sets of its dependency      *)
(* record, a version set brings its package and its matching candidates.   *)
(***************************************************************************)
EXTENDS Universe

VsOfSolv(U, s) ==
  IF ~U.solv[s].known THEN {}
  ELSE UNION {Range(U.solv[s].reqs[i]) : i \in DOMAIN U.solv[s].reqs} \cup Range(U.solv[s].cons)

RECURSIVE Close(_, _)
Close(U, c) ==
  LET names2 == c.names \cup {NameOf(U, s) : s \in c.solv} \cup {U.vs[v].name : v \in c.vs}
      solv2  == c.solv \cup UNION {Range(Cands(U, n)) \cup (IF U.pkg[n].exists THEN Range(U.pkg[n].excluded) ELSE {}) : n \in c.names}
                       \cup UNION {MatchSet(U, v) : v \in c.vs}
      vs2    == c.vs \cup UNION {VsOfSolv(U, s) : s \in c.solv}
      c2 == [names |-> names2, solv |-> solv2, vs |-> vs2]
  IN IF c2 = c THEN c ELSE Close(U, c2)

Capture(U, seeds) == Close(U, [names |-> Range(seeds.names), solv |-> Range(seeds.solv), vs |-> Range(seeds.vs)])

(***************************************************************************)
(* What the snapshot provider must present for captured ids (SnapU).       *)
(* Favored and locked are not represented by the format.                   *)
(***************************************************************************)
SnapCands(U, n)    == Cands(U, n)
SnapExcluded(U, n) == IF U.pkg[n].exists THEN U.pkg[n].excluded ELSE <<>>
\* the provider's preference order over the whole candidate list of a package
SnapOrder(U, n)    == RankSort(U, Cands(U, n))
SnapMatch(U, v)    == Match(U, v)
SnapNonMatch(U, v) == NonMatch(U, v)
SnapDeps(U, s)     == [known |-> U.solv[s].known,
                       reqs |-> IF U.solv[s].known THEN U.solv[s].reqs ELSE <<>>,
                       cons |-> IF U.solv[s].known THEN U.solv[s].cons ELSE <<>>]

\* the sub-universe a solve through the snapshot sees has the same candidate
\* lists, match sets, dependency records and order; hence the same verdict and
\* solutions valid against U whenever U has no favored / locked candidates
NoFavoredLocked(U) == \A n \in Names(U) : U.pkg[n].favored = 0 /\ U.pkg[n].locked = 0
=============================================================================
