SPECIFICATION MCSpec
CONSTANTS
  IdSeq <- QuickIds
  Vals = {1, 2}
INVARIANTS LenIsCount MaxBounds IterComplete IterAscending
CHECK_DEADLOCK FALSE
