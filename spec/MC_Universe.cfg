SPECIFICATION Spec
INVARIANTS WellFormed SatAgree SatNaiveAgree DirectAgree ClosureValid SortedOK SoftObligedOK DirectBestImpliesSat
CHECK_DEADLOCK FALSE
