----------------------------- MODULE MC_Cache -----------------------------
(* TLC wrapper for Cache: a family of two-package universes and the labelled
   state graph of every sequence of cache queries over each of them. *)
EXTENDS Cache, TLC, Json

CONSTANT Family      \* "quick" | "thorough"

NoHint == [mode |-> "none", list |-> <<>>]
MkU(cands, rank, fav, hint, ex2) ==
  [pkg |-> << [exists |-> TRUE, cands |-> cands, rank |-> rank, favored |-> fav, locked |-> 0,
               excluded |-> <<>>, hint |-> hint],
              [exists |-> ex2, cands |-> IF ex2 THEN <<4>> ELSE <<>>, rank |-> IF ex2 THEN <<4>> ELSE <<>>,
               favored |-> 0, locked |-> 0, excluded |-> <<>>, hint |-> NoHint] >>,
   solv |-> << [name |-> 1, known |-> TRUE, reqs |-> << <<3>> >>, cons |-> <<>>],
               [name |-> 1, known |-> FALSE, reqs |-> <<>>, cons |-> <<>>],
               [name |-> 1, known |-> TRUE, reqs |-> <<>>, cons |-> <<3>>],
               [name |-> 2, known |-> TRUE, reqs |-> << <<1, 2>> >>, cons |-> <<>>] >>,
   vs |-> << [name |-> 1, match |-> <<1, 3>>],
             [name |-> 1, match |-> <<>>],
             [name |-> 2, match |-> IF ex2 THEN <<4>> ELSE <<>>],
             [name |-> 1, match |-> <<1, 2, 3>>] >>,
   idmap |-> [solv |-> <<>>, name |-> <<>>, vs |-> <<>>]]

Ranks == IF Family = "quick" THEN {<<3, 1, 2>>} ELSE {<<1, 2, 3>>, <<3, 1, 2>>, <<2, 3, 1>>}
\* quick: the favored candidate is ranked last of three (it moves over two others)
Favs  == IF Family = "quick" THEN {0, 2} ELSE {0, 1, 2, 3}
Hints == {NoHint, [mode |-> "all", list |-> <<>>], [mode |-> "some", list |-> <<2>>]}
Ex2   == IF Family = "quick" THEN {TRUE} ELSE {TRUE, FALSE}
\* the order in which get_candidates lists the candidates (ascending ids, and not)
CandOrders == IF Family = "quick" THEN {<<1, 2, 3>>, <<3, 1, 2>>} ELSE {<<1, 2, 3>>, <<3, 1, 2>>, <<3, 2, 1>>}
Universes == {MkU(c, r, f, h, e) : c \in CandOrders, r \in Ranks, f \in Favs, h \in Hints, e \in Ex2}

\* the query alphabet
QMatch == {1, 2}
QNon   == {1}
QReqs  == {<<1>>, <<1, 3>>, <<4>>}
QDepS  == {1, 2}    \* solvable 2 has Unknown dependencies

VARIABLE started
\* a universe of the family is identified by its parameters
UKey(UU) == <<UU.pkg[1].cands, UU.pkg[1].rank, UU.pkg[1].favored, UU.pkg[1].hint.mode, UU.pkg[2].exists>>
Key  == ToJson(<<UKey(U), cC, cD, cM, cN, cS>>)
KeyP == ToJson(<<UKey(U'), cC', cD', cM', cN', cS'>>)
ObsP == [val |-> last'.val, calls |-> last'.calls,
         avail |-> [x \in DOMAIN U'.solv |-> x \in cD' \/ x \in UNION {Hinted(U', n) : n \in cC'}]]
Emit(op) == PrintT("EDGE|" \o Key \o "|" \o ToJson(op) \o "|" \o KeyP \o "|" \o ToJson(ObsP))

U0 == [pkg |-> <<>>, solv |-> <<>>, vs |-> <<>>]
MCInit == /\ started = FALSE /\ U = U0
          /\ cC = {} /\ cD = {} /\ cM = {} /\ cN = {} /\ cS = {} /\ last = [val |-> 0, calls |-> <<>>]
          /\ PrintT("INIT|" \o ToJson(<<"start">>) \o "|" \o ToJson([start |-> TRUE]))
Start == /\ ~started /\ started' = TRUE
         /\ U' \in Universes
         /\ UNCHANGED <<cC, cD, cM, cN, cS, last>>
         /\ PrintT("EDGE|" \o ToJson(<<"start">>) \o "|" \o ToJson([op |-> "load", u |-> U']) \o "|" \o KeyP
                   \o "|" \o ToJson([loaded |-> TRUE]))
MCNext == \/ Start
          \/ /\ started /\ UNCHANGED started
             /\ \/ \E n \in {1, 2} : QCands(n) /\ Emit([op |-> "cands", a |-> <<n>>])
                \/ \E v \in QMatch : QMatching(v) /\ Emit([op |-> "matching", a |-> <<v>>])
                \/ \E v \in QNon : QNonMatch(v) /\ Emit([op |-> "nonmatching", a |-> <<v>>])
                \/ \E r \in QReqs : QSorted(r) /\ Emit([op |-> "sorted", a |-> r])
                \/ \E x \in QDepS : QDeps(x) /\ Emit([op |-> "deps", a |-> <<x>>])
MCSpec == MCInit /\ [][MCNext]_<<vars, started>>

\* the model's own sanity (C20 statements on the oracle operators)
InvPartition == started => Partition
InvSorted == started => SortedIsPermutation
=============================================================================
