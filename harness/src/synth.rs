//! C04 (rendering): conflict graphs that were NOT produced by a solve.
//!
//! From a universe and a problem a graph of true facts is assembled the way
//! `Conflict::graph` assembles one (requirement groups with all their candidates,
//! constrains / lock / exclusion edges, forbid chains per package), for a random
//! selection of the facts.  The graph is rendered through the verification hook
//! `DisplayUnsat::verif_new`; TLC decides with `Conflict.tla` whether the graph is a
//! conflict report in the sense of C03 (every edge true, groups exact, reachable,
//! refuting) and only then demands the C04 bound on the rendered text.

use std::{
    collections::{BTreeMap, HashMap},
    fmt::Write,
    panic::{catch_unwind, AssertUnwindSafe},
    rc::Rc,
};

use petgraph::graph::{DiGraph, NodeIndex};
use resolvo::conflict::{ConflictCause, ConflictEdge, ConflictGraph, ConflictNode, DisplayUnsat};
use serde_json::{json, Value};

use crate::model::*;
use crate::provider::*;
use crate::rng::Rng;

/// a `fmt::Write` sink that gives up after `cap` bytes
struct Capped {
    buf: String,
    cap: usize,
    overflow: bool,
}
impl Write for Capped {
    fn write_str(&mut self, s: &str) -> std::fmt::Result {
        if self.buf.len() + s.len() > self.cap {
            self.overflow = true;
            return Err(std::fmt::Error);
        }
        self.buf.push_str(s);
        Ok(())
    }
}

fn req_cands(u: &Universe, r: &[u32]) -> Vec<u32> {
    let mut out = Vec::new();
    for &v in r {
        let vs = &u.vs[v as usize - 1];
        let pk = &u.pkg[vs.name as usize - 1];
        if !pk.exists {
            continue;
        }
        for &c in &pk.cands {
            if vs.matching.contains(&c) && !out.contains(&c) {
                out.push(c);
            }
        }
    }
    out
}

fn non_matching(u: &Universe, v: u32) -> Vec<u32> {
    let vs = &u.vs[v as usize - 1];
    let pk = &u.pkg[vs.name as usize - 1];
    if !pk.exists {
        return vec![];
    }
    pk.cands.iter().copied().filter(|c| !vs.matching.contains(c)).collect()
}

pub fn run_synth(case: &Case) -> Vec<Value> {
    let u = Rc::new(case.u.clone());
    let p = &case.ps[0];
    let rec = Rc::new(Recorder::default());
    let provider = TableProvider::new(u.clone(), rec, None, &case.cfg);
    let m = provider.maps.clone();
    let mut rng = Rng::new(case.cfg.sched_seed ^ 0x51A7);
    // probability (in percent) of keeping a fact; 100 = the whole closure
    let keep = [100u64, 100, 90, 75, 60][rng.below(5) as usize];

    let mut g = DiGraph::<ConflictNode, ConflictEdge>::default();
    let root = g.add_node(ConflictNode::verif_root());
    let mut node_of: HashMap<u32, NodeIndex> = HashMap::new(); // wire solvable -> node
    let mut unres: Option<NodeIndex> = None;
    let mut excl_nodes: HashMap<u32, NodeIndex> = HashMap::new();
    let mut queue: Vec<u32> = vec![0];
    let mut done: Vec<u32> = vec![];
    macro_rules! node {
        ($s:expr) => {{
            let s: u32 = $s;
            if s == 0 {
                root
            } else {
                *node_of.entry(s).or_insert_with(|| {
                    queue.push(s);
                    g.add_node(ConflictNode::Solvable(m.sid(s).into()))
                })
            }
        }};
    }
    while let Some(x) = queue.pop() {
        if done.contains(&x) {
            continue;
        }
        done.push(x);
        let xn = node!(x);
        let (reqs, cons): (Vec<Vec<u32>>, Vec<u32>) = if x == 0 {
            (p.reqs.clone(), p.cons.clone())
        } else {
            let s = &u.solv[x as usize - 1];
            let pk = &u.pkg[s.name as usize - 1];
            if pk.excluded.contains(&x) && rng.below(100) < keep {
                let r = provider.reason_excluded(s.name);
                let en = *excl_nodes.entry(r.0).or_insert_with(|| g.add_node(ConflictNode::Excluded(r)));
                g.add_edge(xn, en, ConflictEdge::Conflict(ConflictCause::Excluded));
            }
            if pk.locked != 0 && pk.locked != x && rng.below(100) < keep {
                g.add_edge(root, xn, ConflictEdge::Conflict(ConflictCause::Locked(m.sid(pk.locked))));
            }
            if !s.known {
                if rng.below(100) < keep {
                    let r = provider.reason_unknown(s.name);
                    let en = *excl_nodes.entry(r.0).or_insert_with(|| g.add_node(ConflictNode::Excluded(r)));
                    g.add_edge(xn, en, ConflictEdge::Conflict(ConflictCause::Excluded));
                }
                (vec![], vec![])
            } else {
                (s.reqs.clone(), s.cons.clone())
            }
        };
        let mut seen_reqs: Vec<&Vec<u32>> = vec![];
        for r in &reqs {
            if seen_reqs.contains(&r) || !(x == 0 || rng.below(100) < keep) {
                continue;
            }
            seen_reqs.push(r);
            let req = provider.requirement(r);
            let cs = req_cands(&u, r);
            if cs.is_empty() {
                let un = *unres.get_or_insert_with(|| g.add_node(ConflictNode::UnresolvedDependency));
                g.add_edge(xn, un, ConflictEdge::Requires(req));
            } else {
                for c in cs {
                    let cn = node!(c);
                    g.add_edge(xn, cn, ConflictEdge::Requires(req));
                }
            }
        }
        for &v in &cons {
            for c in non_matching(&u, v) {
                // a constrains edge only towards solvables that are shown anyway or, now
                // and then, towards a solvable it introduces
                let shown = node_of.contains_key(&c);
                if (shown && rng.below(100) < keep) || (!shown && rng.below(100) < 25) {
                    let cn = node!(c);
                    g.add_edge(xn, cn, ConflictEdge::Conflict(ConflictCause::Constrains(m.vid(v))));
                }
            }
        }
    }
    // forbid chains: the shown solvables of one package, in some order
    let mut by_name: BTreeMap<u32, Vec<u32>> = BTreeMap::new();
    let mut shown: Vec<u32> = node_of.keys().copied().collect();
    shown.sort();
    for s in shown {
        by_name.entry(u.solv[s as usize - 1].name).or_default().push(s);
    }
    for (_, mut ss) in by_name {
        if ss.len() < 2 || rng.below(100) >= keep {
            continue;
        }
        rng.shuffle(&mut ss);
        for w in ss.windows(2) {
            g.add_edge(node_of[&w[0]], node_of[&w[1]], ConflictEdge::Conflict(ConflictCause::ForbidMultipleInstances));
        }
    }

    let graph = ConflictGraph { graph: g, root_node: root, unresolved_node: unres };
    let gj = crate::run::graph_json(&graph, &provider);
    let mut lines = vec![json!({
        "ev":"begin","id":case.id,"k":1,"fresh":true,
        "profile": case.profile, "u": case.u, "p": p, "cfg": case.cfg,
    })];
    let r = catch_unwind(AssertUnwindSafe(|| {
        let mut dot = Vec::new();
        graph.graphviz(&mut dot, &provider, false).unwrap();
        let mut dots = Vec::new();
        graph.graphviz(&mut dots, &provider, true).unwrap();
        let mut sink = Capped { buf: String::new(), cap: 4 << 20, overflow: false };
        let disp = DisplayUnsat::verif_new(graph, &provider);
        let _ = write!(sink, "{disp}");
        (sink.buf.lines().count(), sink.buf.len(), sink.overflow, dot.len(), dots.len())
    }));
    match r {
        Ok((nlines, len, overflow, dot, dots)) => {
            lines.push(json!({"ev":"result","kind":"synth","phase":"","site":"",
                "msg": if overflow { "OVERFLOW" } else { "" },
                "sol":[],"v":0,"graph":gj,"lines": if overflow { 1_000_000_000usize } else { nlines },
                "msglen":len,"dot":dot,"dots":dots}));
        }
        Err(_) => {
            let (loc, msg) = crate::run::LAST_PANIC.with(|p| p.borrow_mut().take()).unwrap_or_default();
            let mut mm = format!("PANIC {} {}", loc.rsplit("/repo/").next().unwrap_or(""), msg.replace('\n', " "));
            mm.truncate(200);
            lines.push(json!({"ev":"result","kind":"synth","phase":"render","site":"",
                "msg": mm,"sol":[],"v":0,"graph":gj,"lines":0,"msglen":0,"dot":0,"dots":0}));
        }
    }
    lines.push(json!({"ev":"end"}));
    lines
}
