------------------------------- MODULE Pool -------------------------------
(***************************************************************************)
(* C18: the interning pool.  Names, strings and version sets are interned  *)
(* by value (same value -> same id, ids dense in order of first            *)
(* appearance); solvables and unions always get a fresh dense id.          *)
(*                                                                         *)
(* Values are small integers.  A behaviour may start with a bulk load of   *)
(* `bulk` fresh items into every table (values 1001..1000+bulk), so that   *)
(* the operations that follow cross the arenas' 128-element chunk          *)
(* boundaries; the sequences below hold the items interned after that, and *)
(* the id of the i-th of them is bulk + i - 1.                             *)
(***************************************************************************)
EXTENDS Integers, Sequences, FiniteSets

CONSTANTS NameVals, StrVals, VsVals, RecVals, BulkSizes, MaxSolv, MaxUnion, MaxVs

VARIABLES bulk,     \* size of the initial bulk load (0 = none)
          names,    \* interned name values after the bulk load
          strs,     \* interned strings
          vss,      \* <<name id, version-set value>>
          solvs,    \* <<name id, record value>>
          unions,   \* sequences of version-set ids
          ret       \* id returned by the last operation (-1 = none)
vars == <<bulk, names, strs, vss, solvs, unions, ret>>

IndexOf(s, x) == IF \E i \in DOMAIN s : s[i] = x THEN CHOOSE i \in DOMAIN s : s[i] = x ELSE 0
Intern(s, x) == IF IndexOf(s, x) # 0 THEN s ELSE Append(s, x)
IdOf(s, x) == bulk + IndexOf(s, x) - 1

Init == /\ bulk \in BulkSizes \cup {0}
        /\ names = <<>> /\ strs = <<>> /\ vss = <<>> /\ solvs = <<>> /\ unions = <<>> /\ ret = -1

InternName(n) == /\ names' = Intern(names, n) /\ ret' = bulk + IndexOf(names', n) - 1
                 /\ UNCHANGED <<bulk, strs, vss, solvs, unions>>
InternString(s) == /\ strs' = Intern(strs, s) /\ ret' = bulk + IndexOf(strs', s) - 1
                   /\ UNCHANGED <<bulk, names, vss, solvs, unions>>
\* pos: position of an interned name; its id is bulk + pos - 1
InternVs(pos, v) ==
  /\ pos \in DOMAIN names
  /\ LET e == <<bulk + pos - 1, v>> IN
     /\ Len(vss) < MaxVs \/ IndexOf(vss, e) # 0
     /\ vss' = Intern(vss, e) /\ ret' = bulk + IndexOf(vss', e) - 1
  /\ UNCHANGED <<bulk, names, strs, solvs, unions>>
InternSolvable(pos, r) ==
  /\ pos \in DOMAIN names /\ Len(solvs) < MaxSolv
  /\ solvs' = Append(solvs, <<bulk + pos - 1, r>>) /\ ret' = bulk + Len(solvs)
  /\ UNCHANGED <<bulk, names, strs, vss, unions>>
\* a union of one or more version sets given by their positions; never de-duplicated
InternUnionSeq(ms) ==
  /\ ms # <<>> /\ \A i \in DOMAIN ms : ms[i] \in DOMAIN vss
  /\ Len(unions) < MaxUnion
  /\ unions' = Append(unions, [i \in DOMAIN ms |-> bulk + ms[i] - 1]) /\ ret' = bulk + Len(unions)
  /\ UNCHANGED <<bulk, names, strs, vss, solvs>>
InternUnion(a, b) == InternUnionSeq(<<a, b>>)
\* the pool interns through a shared reference, so the iterator that yields the members of
\* a union may itself intern another union while the outer call is still consuming it
\* (a nested any-of group registered on the fly): the inner union is complete first and
\* gets the lower id, the outer call returns the id of ITS union, <<a, b>>
InternUnionNested(a, b) ==
  /\ a \in DOMAIN vss /\ b \in DOMAIN vss
  /\ Len(unions) + 1 < MaxUnion + 1
  /\ unions' = unions \o << <<bulk + b - 1>>, <<bulk + a - 1, bulk + b - 1>> >>
  /\ ret' = bulk + Len(unions) + 1
  /\ UNCHANGED <<bulk, names, strs, vss, solvs>>

Next == \/ \E n \in NameVals : InternName(n)
        \/ \E s \in StrVals : InternString(s)
        \/ \E pos \in 1..2, v \in VsVals : InternVs(pos, v)
        \/ \E pos \in 1..2, r \in RecVals : InternSolvable(pos, r)
        \/ \E a \in 1..2, b \in 1..2 : InternUnion(a, b)

Spec == Init /\ [][Next]_vars

(***************************************************************************)
(* Properties                                                              *)
(***************************************************************************)
NoDup(s) == \A i, j \in DOMAIN s : s[i] = s[j] => i = j
\* equal values share an id and different values get different ids
InternUnique == NoDup(names) /\ NoDup(strs) /\ NoDup(vss)
\* every id handed out is within the table it belongs to
RetInRange == ret >= -1 /\ ret < bulk + 3 + MaxSolv + MaxVs

\* what the real pool must show after every operation
Obs == [ret |-> ret, bulk |-> bulk,
        n_names |-> bulk + Len(names), n_strs |-> bulk + Len(strs), n_vss |-> bulk + Len(vss),
        n_solvs |-> bulk + Len(solvs), n_unions |-> bulk + Len(unions),
        names |-> names, strs |-> strs, vss |-> vss, solvs |-> solvs, unions |-> unions,
        lookup |-> [v \in 1..2 |-> IF IndexOf(names, v) # 0 THEN bulk + IndexOf(names, v) - 1 ELSE -1],
        stable |-> TRUE]          \* every reference handed out earlier is still valid and unchanged
=============================================================================
