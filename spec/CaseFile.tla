------------------------------ MODULE CaseFile ------------------------------
(* The cases (universe, problems, configuration) the harness solves, read from
   the NDJSON file named by the environment variable CASES.  A plain
   constant-level definition: TLC evaluates it once (a CONSTANT overridden in
   the cfg with `<-` is re-evaluated at every reference). *)
EXTENDS Json, IOUtils
Cases == ndJsonDeserialize(IOEnv.CASES)
=============================================================================
