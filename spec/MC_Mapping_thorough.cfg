SPECIFICATION MCSpec
CONSTANTS
  IdSeq <- ThoroughIds
  Vals = {1}
INVARIANTS LenIsCount MaxBounds IterComplete IterAscending
CHECK_DEADLOCK FALSE
