SPECIFICATION Spec
CONSTANT OracleBound = 70
POSTCONDITION Accepted
CHECK_DEADLOCK FALSE
