#!/usr/bin/env python3
"""Writes MANIFEST.json from the registry in props.py (run after editing it)."""
import json, os, sys
sys.path.insert(0, os.path.dirname(os.path.abspath(__file__)))
import props

VERIF = os.path.dirname(os.path.dirname(os.path.abspath(__file__)))
all_ids = [json.loads(l)["id"] for l in open(os.path.join(VERIF, "properties.jsonl"))]
checks = []
for pid in all_ids:
    if pid not in props.CHECKS:
        continue
    meta = props.META[pid]
    checks.append({
        "property_id": pid,
        "quick_cmd": f"./check {pid} --tier quick",
        "thorough_cmd": f"./check {pid} --tier thorough",
        "evidence_file": f"/verif/evidence/{pid}.json",
        "replay_cmd_template": "./check " + pid + " --replay {path}",
        "engine": "tlc",
        "level_claimed": {"category": meta["level"], "text": meta["text"], "design_ref": meta["design_ref"]},
        "level_note": meta["note"],
        "technique": meta["technique"],
    })
na = [{"property_id": pid, "reason": props.NOT_APPLICABLE.get(pid, "check not built yet in this framework revision")}
      for pid in all_ids if pid not in props.CHECKS]
m = {
    "version": 1,
    "setup_cmd": "./setup.sh",
    "hooks": {
        "guard": "resolvo_verif",
        "enable": "RUSTFLAGS='--cfg resolvo_verif' (set in /verif/harness/.cargo/config.toml; the harness path-depends on /repo)",
        "baseline_off_cmd": "cd /repo && cargo test --workspace --no-fail-fast --offline",
        "source_commits": props.HOOK_COMMITS,
        "add_only": True,
    },
    "engines": [
        {"name": "tlc", "path": "/verif/spec", "serves_properties": [c["property_id"] for c in checks],
         "kind_free_text": "explicit TLA+ specifications checked by TLC: trace validation of recorded executions of the real solver, state-graph replay into the real code, bounded model checking of the design"},
    ],
    "checks": checks,
    "not_applicable": na,
    "notes": "See DESIGN.md. Exit codes: 0 held, 1 VIOLATION, 2 tool error.",
}
json.dump(m, open(os.path.join(VERIF, "MANIFEST.json"), "w"), indent=1)
print("checks:", [c["property_id"] for c in checks], "not_applicable:", [x["property_id"] for x in na])
