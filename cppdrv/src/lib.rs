//! One static archive for the C++ drivers: the binding under test
//! (resolvo_cpp, built from /repo's working tree) and nothing else.  The
//! `extern "C"` symbols of resolvo_cpp are exported by the archive.
pub use resolvo_cpp::*;
