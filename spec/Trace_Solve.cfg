SPECIFICATION Spec
CONSTANT OracleBound = 20000
POSTCONDITION Accepted
CHECK_DEADLOCK FALSE
