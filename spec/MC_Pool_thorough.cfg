SPECIFICATION MCSpec
CONSTANTS
  NameVals = {1, 2}
  StrVals = {1, 2}
  VsVals = {1, 2}
  RecVals = {1, 2}
  BulkSizes = {126, 127, 128, 129, 256, 300}
  MaxSolv = 2
  MaxUnion = 1
  MaxVs = 3
INVARIANTS InternUnique RetInRange
CHECK_DEADLOCK FALSE
