//! Small deterministic PRNG (splitmix64); no external dependency so that seeds
//! mean the same thing everywhere.

#[derive(Clone, Debug)]
pub struct Rng(u64);

impl Rng {
    pub fn new(seed: u64) -> Self {
        Rng(seed.wrapping_mul(0x9E3779B97F4A7C15).wrapping_add(0x1234_5678_9ABC_DEF1))
    }
    pub fn next(&mut self) -> u64 {
        self.0 = self.0.wrapping_add(0x9E3779B97F4A7C15);
        let mut z = self.0;
        z = (z ^ (z >> 30)).wrapping_mul(0xBF58476D1CE4E5B9);
        z = (z ^ (z >> 27)).wrapping_mul(0x94D049BB133111EB);
        z ^ (z >> 31)
    }
    /// uniform in 0..n (n > 0)
    pub fn below(&mut self, n: u64) -> u64 {
        self.next() % n
    }
    /// uniform in lo..=hi
    pub fn range(&mut self, lo: u32, hi: u32) -> u32 {
        lo + self.below((hi - lo + 1) as u64) as u32
    }
    pub fn chance(&mut self, p: f64) -> bool {
        (self.next() >> 11) as f64 / ((1u64 << 53) as f64) < p
    }
    pub fn pick<'a, T>(&mut self, v: &'a [T]) -> &'a T {
        &v[self.below(v.len() as u64) as usize]
    }
    pub fn shuffle<T>(&mut self, v: &mut [T]) {
        for i in (1..v.len()).rev() {
            let j = self.below(i as u64 + 1) as usize;
            v.swap(i, j);
        }
    }
    pub fn fork(&mut self) -> Rng {
        Rng::new(self.next())
    }
}
