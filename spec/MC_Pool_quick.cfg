SPECIFICATION MCSpec
CONSTANTS
  NameVals = {1, 2}
  StrVals = {1}
  VsVals = {1, 2}
  RecVals = {1}
  BulkSizes = {127, 140}
  MaxSolv = 1
  MaxUnion = 1
  MaxVs = 2
INVARIANTS InternUnique RetInRange
CHECK_DEADLOCK FALSE
