//! Conversion of resolvo's hook events (cfg resolvo_verif) to trace lines.
//! Variables stay solver variable indices (root = 0); `var` lines map them to
//! wire solvable ids or to the package (wire name id) of a helper variable.
//! Clause ids are 1-based (`InstallRoot` = 1).

use resolvo::verif::{ClauseKind, Event, Tag};
use resolvo::{NameId, SolvableId, VersionSetId};
use serde_json::{json, Value};

use crate::provider::IdMaps;

fn lits(l: &[(u32, bool)]) -> Vec<Value> {
    l.iter()
        .map(|&(v, pos)| json!([v, if pos { 1 } else { 0 }]))
        .collect()
}

pub fn to_json(m: &IdMaps, e: &Event) -> Value {
    match e {
        Event::Var {
            var,
            solvable,
            name,
        } => json!({
            "ev": "var", "v": var,
            "solv": solvable.map(|s| m.ws(SolvableId(s))).unwrap_or(0),
            "name": name.map(|n| m.wn(NameId(n))).unwrap_or(0),
        }),
        Event::Clause { id, kind, lits: l } => {
            let (k, a, b, vs, cands): (&str, u32, u32, Vec<u32>, Vec<Vec<u32>>) = match kind {
                ClauseKind::Root => ("root", 0, 0, vec![], vec![]),
                ClauseKind::Requires {
                    parent,
                    version_sets,
                    candidates,
                } => (
                    "requires",
                    *parent,
                    0,
                    version_sets
                        .iter()
                        .map(|&v| m.wv(VersionSetId(v)))
                        .collect(),
                    candidates.clone(),
                ),
                ClauseKind::Constrains {
                    parent,
                    forbidden,
                    version_set,
                } => (
                    "constrains",
                    *parent,
                    *forbidden,
                    vec![m.wv(VersionSetId(*version_set))],
                    vec![],
                ),
                ClauseKind::Forbid { var, helper, name } => {
                    ("forbid", *var, m.wn(NameId(*name)), vec![helper.0, helper.1 as u32], vec![])
                }
                ClauseKind::Lock { locked, other } => ("lock", *locked, *other, vec![], vec![]),
                ClauseKind::Excluded { var } => ("excluded", *var, 0, vec![], vec![]),
            };
            json!({"ev":"clause","id":id,"kind":k,"a":a,"b":b,"vs":vs,"cands":cands,"lits":lits(l)})
        }
        Event::Learnt {
            id,
            lits: l,
            why,
            backtrack_to,
        } => json!({"ev":"learnt","id":id,"lits":lits(l),"why":why,"lvl":backtrack_to}),
        Event::Assign {
            var,
            value,
            level,
            why,
            tag,
        } => json!({
            "ev":"assign","v":var,"val":value,"lvl":level,"why":why,
            "tag": match tag { Tag::Implied => "implied", Tag::Install => "install", Tag::Decide => "decide", Tag::SoftFalse => "softfalse" },
        }),
        Event::Undo { len } => json!({"ev":"undo","len":len}),
        Event::RunSat {
            target,
            starting_level,
        } => json!({
            "ev":"runsat",
            "target": target.map(|s| m.ws(SolvableId(s))).unwrap_or(0),
            "start": starting_level,
        }),
        Event::Restart { starting_level } => json!({"ev":"restart","start":starting_level}),
        Event::Unsat { ids } => json!({"ev":"unsatids","ids":ids}),
    }
}
