---------------------------- MODULE MC_LazyCdclW ----------------------------
EXTENDS LazyCdclW, TLC
CancelTrue == TRUE
RECURSIVE JoinInts(_)
JoinInts(s) == IF s = <<>> THEN "" ELSE ToString(Head(s)) \o (IF Len(s) > 1 THEN "," ELSE "") \o JoinInts(Tail(s))
SetToSeq(S) == LET RECURSIVE F(_) F(T) == IF T = {} THEN <<>> ELSE LET m == CHOOSE x \in T : \A y \in T : x <= y IN <<m>> \o F(T \ {m}) IN F(S)
Report == Done => PrintT("OUTCOME|" \o ToString(Cases[ci].id) \o "." \o ToString(sk) \o "|" \o st.outcome.kind \o "|"
                         \o (IF st.outcome.kind = "sat" THEN JoinInts(SetToSeq(st.outcome.sol)) ELSE "")
                         \o "|" \o ToString(st.nlearnt) \o "|" \o ToString(st.nrestart))
=============================================================================
