//! spec -> implementation replay: TLC prints the complete labelled state graph
//! of a model ("INIT|key|obs" and "EDGE|from|op|to|obs" lines); for every
//! transition the driver executes a shortest operation path from the initial
//! state plus the transition's operation on a FRESH real object and compares
//! the projected observation after every operation with the model's.

use std::collections::{HashMap, VecDeque};
use std::io::BufRead;

use serde_json::{json, Value};

use crate::{get_arg, has_flag};

pub trait Target {
    /// a fresh object; returns its observation
    fn reset(&mut self) -> Value;
    /// applies one operation; returns the observation afterwards
    fn apply(&mut self, op: &Value) -> Value;
    /// does the real observation conform to the model's?  (equality unless a model leaves
    /// something open on purpose)
    fn conforms(&self, expected: &Value, got: &Value) -> bool {
        expected == got
    }
}

struct Edge {
    from: usize,
    op: Value,
    to: usize,
    obs: Value,
}

pub struct Graph {
    keys: HashMap<String, usize>,
    init: usize,
    init_obs: Value,
    edges: Vec<Edge>,
    obs_of: Vec<Option<Value>>,
}

pub fn unescape(s: &str) -> String {
    s.replace("\\\"", "\"").replace("\\\\", "\\")
}

pub fn read_graph(path: &str) -> Graph {
    let f = std::io::BufReader::new(std::fs::File::open(path).expect("graph file"));
    let mut keys: HashMap<String, usize> = HashMap::new();
    let mut edges = Vec::new();
    let mut init = usize::MAX;
    let mut init_obs = Value::Null;
    let mut obs_of: Vec<Option<Value>> = Vec::new();
    let mut id_of = |k: &str, obs_of: &mut Vec<Option<Value>>| -> usize {
        if let Some(&i) = keys.get(k) {
            return i;
        }
        let i = keys.len();
        keys.insert(k.to_string(), i);
        obs_of.push(None);
        i
    };
    for line in f.lines() {
        let line = line.unwrap();
        if !(line.starts_with("\"EDGE|") || line.starts_with("\"INIT|")) {
            continue;
        }
        let body = unescape(&line[1..line.len() - 1]);
        let parts: Vec<&str> = body.split('|').collect();
        if parts[0] == "INIT" {
            init = id_of(parts[1], &mut obs_of);
            init_obs = serde_json::from_str(parts[2]).expect("init obs");
            obs_of[init] = Some(init_obs.clone());
        } else {
            let from = id_of(parts[1], &mut obs_of);
            let op: Value = serde_json::from_str(parts[2]).expect("op");
            let to = id_of(parts[3], &mut obs_of);
            let obs: Value = serde_json::from_str(parts[4]).expect("obs");
            obs_of[to] = Some(obs.clone());
            edges.push(Edge { from, op, to, obs });
        }
    }
    drop(id_of);
    Graph {
        keys,
        init,
        init_obs,
        edges,
        obs_of,
    }
}

pub struct ReplayReport {
    pub states: usize,
    pub edges: usize,
    pub ops_executed: usize,
    pub mismatches: Vec<Value>,
    pub samples: Vec<Value>,
}

pub fn replay(g: &Graph, t: &mut dyn Target, max_report: usize) -> ReplayReport {
    // BFS tree from the initial state: parent edge of every state
    let n = g.keys.len();
    let mut parent: Vec<Option<usize>> = vec![None; n];
    let mut seen = vec![false; n];
    let mut out: Vec<Vec<usize>> = vec![Vec::new(); n];
    for (i, e) in g.edges.iter().enumerate() {
        out[e.from].push(i);
    }
    let mut q = VecDeque::new();
    seen[g.init] = true;
    q.push_back(g.init);
    while let Some(s) = q.pop_front() {
        for &ei in &out[s] {
            let e = &g.edges[ei];
            if !seen[e.to] {
                seen[e.to] = true;
                parent[e.to] = Some(ei);
                q.push_back(e.to);
            }
        }
    }
    let path_to = |s: usize| -> Vec<usize> {
        let mut p = Vec::new();
        let mut cur = s;
        while let Some(ei) = parent[cur] {
            p.push(ei);
            cur = g.edges[ei].from;
        }
        p.reverse();
        p
    };
    let mut rep = ReplayReport {
        states: n,
        edges: g.edges.len(),
        ops_executed: 0,
        mismatches: Vec::new(),
        samples: Vec::new(),
    };
    for (ei, e) in g.edges.iter().enumerate() {
        if !seen[e.from] {
            continue;
        }
        let mut ops: Vec<&Value> = Vec::new();
        let mut expected: Vec<&Value> = Vec::new();
        for pe in path_to(e.from) {
            ops.push(&g.edges[pe].op);
            expected.push(&g.edges[pe].obs);
        }
        ops.push(&e.op);
        expected.push(&e.obs);
        let r = std::panic::catch_unwind(std::panic::AssertUnwindSafe(|| {
            let o0 = t.reset();
            if o0 != g.init_obs {
                return Some((0usize, g.init_obs.clone(), o0));
            }
            for (i, op) in ops.iter().enumerate() {
                let o = t.apply(op);
                if !t.conforms(expected[i], &o) {
                    return Some((i + 1, expected[i].clone(), o));
                }
            }
            None
        }));
        rep.ops_executed += ops.len();
        let bad = match r {
            Ok(None) => None,
            Ok(Some((at, exp, act))) => Some(json!({"at_op": at, "expected": exp, "actual": act})),
            Err(_) => Some(json!({"at_op": -1, "expected": "no panic", "actual": "panic"})),
        };
        if let Some(mut b) = bad {
            if rep.mismatches.len() < max_report {
                b["ops"] = json!(ops);
                b["edge"] = json!(ei);
                rep.mismatches.push(b);
            } else {
                rep.mismatches.push(Value::Null);
            }
        }
        if rep.samples.len() < 3 && ops.len() >= 3 {
            rep.samples.push(json!({"ops": ops, "final_observation": e.obs}));
        }
    }
    let _ = &g.obs_of;
    rep
}

pub fn replay_cmd(args: &[String]) {
    let model = get_arg(args, "--model").expect("--model");
    let graph = get_arg(args, "--graph").expect("--graph");
    let out = get_arg(args, "--out").expect("--out");
    let g = read_graph(&graph);
    let mut target: Box<dyn Target> = match model.as_str() {
        "mapping" => Box::new(crate::targets::MappingTarget::new(&g_ids(args))),
        "pool" => Box::new(crate::targets::PoolTarget::new()),
        "amo" => Box::new(crate::targets::AmoTarget::new()),
        "cache" => Box::new(crate::targets::CacheTarget::new(&get_arg(args, "--universe").expect("--universe"))),
        _ => panic!("unknown model {model}"),
    };
    let quiet = has_flag(args, "--quiet");
    let rep = replay(&g, target.as_mut(), 5);
    let n_bad = rep.mismatches.len();
    let shown: Vec<&Value> = rep.mismatches.iter().filter(|v| !v.is_null()).collect();
    let res = json!({
        "model": model, "states": rep.states, "edges": rep.edges, "ops_executed": rep.ops_executed,
        "mismatches": n_bad, "first": shown, "samples": rep.samples,
    });
    std::fs::write(&out, serde_json::to_string(&res).unwrap()).unwrap();
    if !quiet {
        println!("{}", json!({"states": rep.states, "edges": rep.edges, "mismatches": n_bad}));
    }
}

fn g_ids(args: &[String]) -> Vec<u32> {
    get_arg(args, "--ids")
        .expect("--ids")
        .split(',')
        .map(|s| s.parse().unwrap())
        .collect()
}
