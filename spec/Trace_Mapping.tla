--------------------------- MODULE Trace_Mapping ---------------------------
(* C19, implementation -> spec: long random histories of insert / unset / serde
   round trip on a real resolvo::Mapping with arbitrary (sparse, unordered, large)
   ids, recorded with the full observation after every operation, are followed
   through Mapping.tla.  The id alphabet is whatever occurs in the trace. *)
EXTENDS Integers, Sequences, FiniteSets, SequencesExt, Json, IOUtils, TLC

Rec == ndJsonDeserialize(IOEnv.TRACE)

\* ascending sequence of all ids that occur in the trace
TraceIdSet == {Rec[i].k : i \in {j \in DOMAIN Rec : Rec[j].ev = "op"}}
TraceIds == SetToSortSeq(TraceIdSet, LAMBDA a, b : a < b)

VARIABLES l, hid, m, len, max
M == INSTANCE Mapping WITH IdSeq <- TraceIds, Vals <- 1..9

vars == <<l, hid, m, len, max>>

Fail(rule, info) == PrintT("RULEFAIL|" \o ToString(hid) \o "|1|" \o ToString(l) \o "|" \o rule \o "|" \o ToString(info))
Chk(ok, rule, info) == IF ok THEN TRUE ELSE Fail(rule, info)

Init == l = 1 /\ hid = -1 /\ M!Init

\* a new history on a fresh mapping
Reset == /\ l <= Len(Rec) /\ Rec[l].ev = "reset" /\ l' = l + 1
         /\ hid' = Rec[l].id
         /\ m' = [k \in M!Ids |-> 0] /\ len' = 0 /\ max' = 0
         /\ PrintT("BEGIN|" \o ToString(Rec[l].id) \o "|1|mapping-history")

Op == /\ l <= Len(Rec) /\ Rec[l].ev = "op" /\ l' = l + 1 /\ UNCHANGED hid
      /\ LET r == Rec[l] IN
         /\ CASE r.op = "insert" -> M!Insert(r.k, r.v)
              [] r.op = "unset" -> M!Unset(r.k)
              [] r.op = "roundtrip" -> M!RoundTrip
         /\ LET o == M!Obs(m', len', max') IN
            /\ Chk(r.len = o.len, "C19_Len", <<r.len, o.len>>)
            /\ Chk(r.empty = o.empty, "C19_IsEmpty", r.empty)
            /\ Chk(r.get = m'[r.k], "C19_Get", <<r.k, r.get, m'[r.k]>>)
            /\ Chk(r.iter = o.iter, "C19_Iter", <<r.iter, o.iter>>)
            \* (the length of the serialised form is the format's business: not judged)
            /\ (IF Len(o.iter) >= 3 /\ max' >= 128 THEN PrintT("COVER|" \o ToString(hid) \o "|1|sparse3") ELSE TRUE)

Next == Reset \/ Op
Spec == Init /\ [][Next]_vars
Accepted ==
  IF TLCGet("stats").diameter - 1 = Len(Rec) THEN TRUE
  ELSE PrintT("NOTCONSUMED|" \o ToString(TLCGet("stats").diameter) \o "|" \o ToString(Len(Rec))) /\ FALSE
=============================================================================
