---------------------------- MODULE MC_CowVector ----------------------------
EXTENDS CowVector, Json

\* the part of the state that matters for replay: which handles share a buffer,
\* their contents and reference counts (buffer ids are renamed away)
HView(hh, bb) == [x \in Handles |-> IF hh[x] = -1 THEN <<-2, <<>>, {}>>
                                    ELSE <<bb[hh[x]].rc, bb[hh[x]].data, {y \in Handles : hh[y] = hh[x]}>>]
Key == ToJson(HView(h, buf))
KeyP == ToJson(HView(h', buf'))
\* expected observation per handle: "dead" | [rc, data]
ObsP == [x \in Handles |-> IF h'[x] = -1 THEN [alive |-> FALSE, rc |-> 0, data |-> <<>>]
                           ELSE [alive |-> TRUE, rc |-> buf'[h'[x]].rc, data |-> buf'[h'[x]].data]]
Emit(op) == PrintT("EDGE|" \o Key \o "|" \o ToJson(op) \o "|" \o KeyP \o "|" \o ToJson(ObsP))

MCInit == Init /\ PrintT("INIT|" \o Key \o "|" \o ToJson([x \in Handles |-> [alive |-> FALSE, rc |-> 0, data |-> <<>>]]))
MCNext ==
  \/ \E x \in Handles : New(x) /\ Emit([op |-> "new", x |-> x, y |-> 0, d |-> <<>>])
  \/ \E x \in Handles : Drop(x) /\ Emit([op |-> "drop", x |-> x, y |-> 0, d |-> <<>>])
  \/ \E x \in Handles : MutAccess(x) /\ Emit([op |-> "mutaccess", x |-> x, y |-> 0, d |-> <<>>])
  \/ \E x \in Handles : Clear(x) /\ Emit([op |-> "clear", x |-> x, y |-> 0, d |-> <<>>])
  \/ \E x \in Handles, d \in {<<>>} \cup {<<v>> : v \in Vals} \cup {<<v, w>> : v \in Vals, w \in Vals} :
        FromValues(x, d) /\ Emit([op |-> "from", x |-> x, y |-> 0, d |-> d])
  \/ \E x \in Handles, d \in {<<v>> : v \in Vals} \cup {<<v, w>> : v \in Vals, w \in Vals} :
        FromValues(x, d) /\ Emit([op |-> "from_rust", x |-> x, y |-> 0, d |-> d])
  \/ \E x \in Handles, y \in Handles : Copy(x, y) /\ Emit([op |-> "copy", x |-> x, y |-> y, d |-> <<>>])
  \/ \E x \in Handles, y \in Handles : Copy(x, y) /\ Emit([op |-> "copy_rust", x |-> x, y |-> y, d |-> <<>>])
  \/ \E x \in Handles, v \in Vals : Push(x, v, "cpp") /\ Emit([op |-> "push", x |-> x, y |-> 0, d |-> <<v>>])
  \/ \E x \in Handles, v \in Vals : Push(x, v, "rust") /\ Emit([op |-> "push_rust", x |-> x, y |-> 0, d |-> <<v>>])
  \/ \E x \in Handles, k \in 0..MaxLen : Consume(x, k) /\ Emit([op |-> "consume_rust", x |-> x, y |-> k, d |-> <<>>])
MCSpec == MCInit /\ [][MCNext]_vars

\* buffer ids only grow; states are identified up to renaming by the VIEW
View == HView(h, buf)
=============================================================================
