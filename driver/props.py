"""Registry: property id -> check function."""
import check
from check import TRACE_PLANS, trace_check


def _trace(prop, tier, seed, t0):
    return trace_check(prop, tier, seed, TRACE_PLANS[prop], t0)


CHECKS = {p: _trace for p in TRACE_PLANS}


def _c04(prop, tier, seed, t0):
    return trace_check(prop, tier, seed, TRACE_PLANS[prop], t0, build_profiles=("release", "dbg"))


CHECKS["C04"] = _c04

HOOK_COMMITS = ["24eb488", "1e3405d", "ba08ebd"]
NOT_APPLICABLE = {}

_TRACE_NOTE = ("Trusted: the TLA+ rules (spec/Universe.tla, Conflict.tla, Trace_Solve.tla) state the property; TLC evaluates them; "
               "the harness provider answers as the universe record says; hooks (cfg resolvo_verif) report solver steps faithfully. "
               "Coverage is the set of generated universes/schedules, not all inputs.")


def _m(text, design_ref, technique, level="model_checking", note=_TRACE_NOTE):
    return {"level": level, "text": text, "design_ref": design_ref, "technique": technique, "note": note}


META = {
    "C01": _m("Every execution of the real solver over generated universes (sync/async, all hint patterns, soft requirements) is recorded and validated by TLC against the declarative validity rules of Universe.tla; with hooks every clause must be a true fact and the final assignment must falsify no clause.", "6 C01", "TLA+ trace validation (TLC) of recorded solver executions against a declarative oracle"),
    "C02": _m("Verdicts are compared by TLC with the brute-force Satisfiable operator on small universes and certified on all sizes by an in-TLC proof check of the hook stream (true facts, unit reasons, RUP learnt clauses, RUP refutation); metamorphic variants (candidate order, ids, hints, activity parameters).", "6 C02", "TLA+ trace validation (TLC): oracle comparison + RUP proof checking of the recorded clause/learning stream"),
    "C03": _m("Every conflict graph of generated unsatisfiable problems is checked by TLC edge by edge against the universe, for group exactness, reachability and self-containedness (no model of the displayed facts); with hooks each learnt clause must follow from its recorded antecedents and the reported clause set must be unsatisfiable.", "6 C03", "TLA+ trace validation (TLC) of serialized conflict graphs and antecedent chains"),
    "C04": _m("Every generated case (weighted to hints x exclusions x locks x constraints, soft requirements on unrequested packages, self-constraining solvables, cyclic conflicts) is run in a release build and in a build with debug assertions; each run must end in a result and render graph, graphviz and message within the bound TLC computes from the graph (simple paths); panics, timeouts and crashes are rule failures.", "6 C04", "TLA+ trace validation (TLC) of runs in two build profiles; panic/timeout/crash recorded as events", level="model_checking"),
    "C05": _m("Supportedness of every returned solution is evaluated by TLC; undo events must truncate the trail to a prefix and the solution must equal the true solvable variables of the final trail.", "6 C05", "TLA+ trace validation (TLC)"),
    "C07": _m("On generated conflict-free universes (premise re-evaluated by TLC) the returned selection must equal the first-choice closure, under all hint patterns, candidate permutations and async schedules.", "6 C07", "TLA+ trace validation (TLC)"),
    "C08": _m("TLC decides DirectBestFeasible by seeded search and requires the best direct candidates in the result, for several activity parameters and hint patterns.", "6 C08", "TLA+ trace validation (TLC)"),
    "C09": _m("Every provider call of a run (and of histories on one solver) is judged by TLC: never repeated, causally allowed by records already returned, and exactly the closure's calls on conflict-free problems.", "6 C09", "TLA+ trace validation (TLC) of the provider call stream"),
    "C10": _m("Async runs under FIFO, LIFO and seeded random completion orders (gate runtime: every provider future completes only when the scheduler opens its gate) are validated by TLC: never a quiescent point without a pending request (deadlock), no duplicate provider call, valid solution, oracle verdict, and the same verdict as the synchronous run of the same problem (paired runs).", "6 C10", "TLA+ trace validation (TLC) of executions under controlled completion orders"),
    "C11": _m("At every recorded quiescent point TLC requires that every package name mentioned by a dependency record already returned has had its get_candidates issued (MaxIssued).", "6 C11", "TLA+ trace validation (TLC) of quiescent pending sets"),
    "C12": _m("Fault enumeration: a dry run counts the polls of a case, then the case is re-run with cancellation fired at every poll index (sticky and transient), sync and async FIFO/LIFO; TLC requires Cancelled with exactly that value, no get_candidates/get_dependencies call after the firing poll, and never a solution or conflict instead; the never-firing run is validated like any other run.", "6 C12", "TLA+ trace validation (TLC) over enumerated cancellation points", level="fault_enumeration"),
    "C13": _m("Histories of 2-4 problems on one solver (same/different problems, after Unsolvable, after Cancelled at every poll index with requests in flight, sync and async) are validated by TLC per solve with a fresh oracle; metadata already returned must never be requested again.", "6 C13", "TLA+ trace validation (TLC) of multi-solve histories"),
    "C15": _m("Generated wide universes (one package with n candidates, revealed through 1-3 requirements in several orders) require candidate pairs (must be Unsolvable per the oracle) and single candidates (must be solvable); every n <= 9 with all pairs, and n in {15,16,17,31,32,33,40} with all pairs; verdict and validity judged by TLC.", "6 C15", "TLA+ trace validation (TLC) of enumerated wide-package problems"),
    "C14": _m("Soft-requirement problems: validity with the documented exemption, no error when the hard problem is satisfiable, and inclusion of the cleanly compatible prefix (SoftObliged), all evaluated by TLC.", "6 C14", "TLA+ trace validation (TLC)"),
}


# ---------------------------------------------------------------------------
# C19 Mapping
# ---------------------------------------------------------------------------
def _c19(prop, tier, seed, t0):
    ids = "0,1,127,128,300" if tier == "quick" else "0,1,2,126,127,128,129,255,256,1000"
    rep = check.graph_replay(prop, "mapping", "MC_Mapping.tla", f"MC_Mapping_{tier}.cfg", "mapping", ["--ids", ids],
                             workers=8)
    return check.finish_graph_check(prop, tier, seed, t0, [rep], {"ids": ids})


CHECKS["C19"] = _c19
META["C19"] = _m("TLC checks the Mapping model's invariants (len = number of stored ids, iteration complete and ascending) on its complete state graph for a bounded id alphabet that crosses the 128-slot chunk boundary, and every transition (insert / unset / serde round trip) is replayed on a real resolvo::Mapping comparing get, len, is_empty, iter and the serialised length.", "6 C19", "TLC state-graph generation + replay of every transition into the real Mapping",
                 note="Trusted: Mapping.tla's observation function; bounded alphabet of ids (quick 5 ids x 2 values, thorough 10 ids). Exhaustive for that alphabet.")


# ---------------------------------------------------------------------------
# C18 Pool, C20 SolverCache: state-graph replay
# ---------------------------------------------------------------------------
def _c18(prop, tier, seed, t0):
    import subprocess
    import concurrent.futures as cf
    rep = check.graph_replay(prop, "pool", "MC_Pool.tla", f"MC_Pool_{tier}.cfg", "pool", [], workers=8)
    # implementation -> spec: long random histories (every arena crosses several chunk
    # boundaries) followed through Pool.tla
    exe = vlib.build_harness("release")
    wd = os.path.join(vlib.WORK, prop)
    os.makedirs(wd, exist_ok=True)
    nfiles, per, ops = (6, 2, 1200) if tier == "quick" else (14, 6, 2500)
    traces = []
    for i in range(nfiles):
        t = os.path.join(wd, f"hist{i}.trace")
        subprocess.run([exe, "pool-histories", "--n", str(per), "--ops", str(ops), "--seed", str(seed * 100 + i),
                        "--out", t], check=True)
        traces.append(t)
    fails, events, hist, chunks = [], 0, 0, 0
    with cf.ThreadPoolExecutor(max_workers=8) as ex:
        for f, covers, begins, st in ex.map(lambda t: vlib.validate_trace(t, "Trace_Pool.tla", "Trace_Pool.cfg", tag=prop), traces):
            fails += f
            events += st["states"]
            hist += len(begins)
            chunks += len(covers)
    extra = {"random_histories_validated": hist, "history_events": events, "operations_per_history": ops,
             "events_beyond_the_first_chunk_of_three_tables": chunks}
    rc = check.finish_graph_check(prop, tier, seed, t0, [rep], extra)
    if fails:
        f0 = vlib.first_fail_per_run(fails)[0]
        path = vlib.write_replay(prop, dict(f0, trace=None), {"history_trace": f0["trace"]})
        print(f"VIOLATION property={prop} replay={path}")
        vlib.log(f"  rule={f0['rule']} history={f0['id']} info={f0['info'][:300]}")
        ev = json.load(open(os.path.join(vlib.EVIDENCE, f"{prop}.json")))
        ev["violations"] = ev.get("violations", 0) + len(fails)
        json.dump(ev, open(os.path.join(vlib.EVIDENCE, f"{prop}.json"), "w"), indent=1)
        rc = 1
    return rc


def _c20(prop, tier, seed, t0):
    rep = check.graph_replay(prop, "cache", "MC_Cache.tla", f"MC_Cache_{tier}.cfg", "cache", ["--universe", "-"],
                             workers=8)
    rc = check.finish_graph_check(prop, tier, seed, t0, [rep])
    # impl -> spec: availability queries issued from inside sort_candidates during real solves
    check.enable_rules(prop)
    exe = vlib.build_harness("release")
    wd = os.path.join(vlib.WORK, prop)
    n = 150 if tier == "quick" else 3000
    allc = os.path.join(wd, "reenter.all")
    cnt = vlib.gen_cases(exe, allc, "solve:base,hints,hintsall,soft", n, seed, "reenter", whitebox=False, render=False)
    files = vlib.split_file(allc, 8, wd, "reenter")
    # ... and what the solver is handed as "sorted candidates" for long candidate lists
    # (18-45 candidates, favored somewhere in the middle): the candidate sequence of every
    # requires clause must be Universe!Sorted (rule C07_ClauseCandidateOrder)
    allm = os.path.join(wd, "many.all")
    vlib.gen_cases(exe, allm, "solve:manycands", 40 if tier == "quick" else 800, seed, "hints", whitebox=True,
                   render=False, first_id=700001)
    files += vlib.split_file(allm, 8, wd, "many")
    res = vlib.run_and_validate(exe, files, prop)
    fails = [f for f in vlib.first_fail_per_run(res.fails) if check.owned_by(prop, f["rule"])]
    ev = json.load(open(os.path.join(vlib.EVIDENCE, f"{prop}.json")))
    ev["coverage"]["reentrant_runs_validated"] = res.runs
    ev["coverage"]["reentrant_trace_events"] = res.transitions
    ev["coverage"]["traces_validated_against_impl"] += res.runs
    ev["wall_s"] = round(time.time() - t0, 1)
    for f in fails[:1]:
        path = vlib.write_replay(prop, f)
        print(f"VIOLATION property={prop} replay={path}")
        rc = 1
    ev["violations"] = ev.get("violations", 0) + len(fails)
    json.dump(ev, open(os.path.join(vlib.EVIDENCE, f"{prop}.json"), "w"), indent=1)
    return rc


import json, os, time
import vlib
CHECKS["C18"] = _c18
CHECKS["C20"] = _c20
check.ALSO["C20"] = ["C07_ClauseCandidateOrder"]
META["C18"] = _m("TLC checks InternUnique on the Pool model and prints its complete state graph (names, strings, version sets interned by value; solvables and unions fresh and dense), optionally preceded by a bulk load of 127-129 (thorough: 126-300) items per table so that later operations cross the arenas' 128-element chunk boundaries; every transition is replayed on a real Pool, comparing returned ids, all tables, lookups, and that every reference handed out earlier still has the same address and value. In the other direction long random histories (1 200 / 2 500 intern, lookup and resolve calls each, several hundred items per table) recorded from a real Pool are followed through Pool.tla by TLC (Trace_Pool.tla): returned ids, a resolved value per call, and stability of everything handed out before.", "6 C18", "TLC state-graph generation + replay of every transition into the real Pool; TLA+ trace validation of long random histories",
                 note="Trusted: Pool.tla; address stability is observed (pointer equality of re-resolved references), undefined behaviour that does not move memory is invisible. Bounded alphabet.")
META["C20"] = _m("TLC checks Partition and SortedIsPermutation on the Cache model and prints the complete query graph over a family of two-package universes (favored in every position, hints none/all/some, missing package, empty version set, union requirement); every transition is replayed on a real SolverCache comparing the returned value, the exact sequence of provider calls (none for a repeated query) and the availability answer for every solvable. In addition real solves whose sort_candidates re-enters the cache are validated by TLC (C20_Availability).", "6 C20", "TLC state-graph generation + replay into the real SolverCache; TLA+ trace validation of re-entrant queries",
                 note="Trusted: Cache.tla and Universe.tla (Sorted, Match); bounded universe family and query alphabet.")


# ---------------------------------------------------------------------------
# C06 determinism: the same case repeatedly in one process and in separate
# processes; TLC compares the observable projections run by run
# ---------------------------------------------------------------------------
def _blocks(trace):
    """yields (group, [lines]) per case of a trace"""
    cur, grp = [], None
    with open(trace) as f:
        for line in f:
            if '"ev":"begin"' in line:
                ev = json.loads(line)
                grp = ev["cfg"]["group"]
                cur = []
            cur.append(line)
            if line.startswith('{"ev":"end"}'):
                yield grp, cur
                cur = []


def _c06(prop, tier, seed, t0):
    check.enable_rules(prop)
    exe = vlib.build_harness("release")
    wd = vlib.fresh_dir(os.path.join(vlib.WORK, prop))
    n = 90 if tier == "quick" else 1800
    allc = os.path.join(wd, "rep.all")
    total = vlib.gen_cases(exe, allc, "repeat:base,midconflict,soft,hints,cyclic,unionoverlap,multilock,locks,excl,multicons", n, seed, "", whitebox=False,
                           extra=["--reps", "4"])
    shards = vlib.split_file(allc, 8 if tier == "quick" else 32, wd, "rep")
    merged = []
    nproc = 5 if tier == "quick" else 6
    for sh in shards:
        traces = []
        for pi in range(nproc):      # separate processes: different hasher seeds and addresses
            t = sh[:-6] + f".p{pi}.trace"
            vlib.run_cases(exe, sh, t)
            traces.append(t)
        by_group = {}
        order = []
        for pi, t in enumerate(traces):
            for g, lines in _blocks(t):
                if g not in by_group:
                    by_group[g] = []
                    order.append(g)
                if pi > 0:
                    # runs from another process are all compared with what came before
                    lines = [lines[0].replace('"same":""', '"same":"exact"', 1)] + lines[1:]
                by_group[g] += lines
        m = sh[:-6] + ".merged.trace"
        with open(m, "w") as f:
            for g in order:
                f.writelines(by_group[g])
        for t in traces:
            os.remove(t)
        merged.append(m)
    import concurrent.futures as cf
    res = vlib.TraceResult()
    with cf.ThreadPoolExecutor(max_workers=12) as ex:
        for fails, covers, begins, st in ex.map(lambda t: vlib.validate_trace(t, tag=prop), merged):
            res.fails += fails
            for (_i, _k, tags) in covers:
                for tg in tags:
                    res.cover[tg] += 1
                    res.cover_runs[tg].add((_i, _k))
            res.runs += len(begins)
            for (_i, _k, prof) in begins:
                res.profiles[prof] += 1
            res.states += st["distinct"]
            res.transitions += st["states"]
    res.traces = merged
    return check.finish_trace_check(prop, tier, seed, res, t0, total * nproc,
                                    {"processes_per_case": nproc, "runs_per_process": 4,
                                     "pairs_compared": res.cover.get("paired", 0)})


CHECKS["C06"] = _c06
check.NONTRIVIAL["C06"] = ("paired", "a run compared with the previous run of the same problem (same process or another process)")
META["C06"] = _m("Each generated problem is solved 4 times in one process on fresh solvers and again in 4 (thorough: 5) further processes (different hasher seeds and addresses); the 20 (24) executions of a problem are placed side by side in one trace and TLC requires every execution to show the same verdict, solution sequence, rendered message and provider call sequence as its predecessor.", "6 C06", "TLA+ trace validation (TLC) of side-by-side executions (pair rule in Trace_Solve.tla)",
                 note="Decided over sampled pairs of executions: TLC cannot enumerate hash seeds. Trusted: each process really gets fresh ahash seeds (default runtime-rng).")


# ---------------------------------------------------------------------------
# C16 snapshots
# ---------------------------------------------------------------------------
def _c16(prop, tier, seed, t0):
    check.enable_rules(prop)          # C16 + (via ALSO) C01 C02 C04 for the solves through the snapshot
    exe = vlib.build_harness("release")
    wd = vlib.fresh_dir(os.path.join(vlib.WORK, prop))
    n = 120 if tier == "quick" else 2500
    allc = os.path.join(wd, "snap.all")
    total = vlib.gen_cases(exe, allc, "solve:snap", n, seed, "sparse", whitebox=False, render=False)
    shards = vlib.split_file(allc, 8 if tier == "quick" else 24, wd, "snap")
    import subprocess
    import concurrent.futures as cf
    snaps, solves = [], []
    for sh in shards:
        a, b = sh[:-6] + ".snap.trace", sh[:-6] + ".solve.trace"
        r = subprocess.run([exe, "snap", "--cases", sh, "--out-snap", a, "--out-solve", b, "--seed", str(seed)],
                           capture_output=True, text=True)
        if r.returncode != 0:
            raise vlib.ToolError("vh snap failed: " + r.stderr[-2000:])
        snaps.append(a)
        solves.append(b)
    res = vlib.TraceResult()
    jobs = [(t, "Trace_Snapshot.tla", "Trace_Snapshot.cfg") for t in snaps] + \
           [(t, "Trace_Solve.tla", "Trace_Solve.cfg") for t in solves]
    with cf.ThreadPoolExecutor(max_workers=12) as ex:
        for (fails, covers, begins, st), (t, mod, _c) in zip(
                ex.map(lambda j: vlib.validate_trace(j[0], j[1], j[2], tag=prop), jobs), jobs):
            res.fails += fails
            for (_i, _k, tags) in covers:
                for tg in tags:
                    res.cover[tg] += 1
                    res.cover_runs[tg].add((_i, _k))
            if mod == "Trace_Snapshot.tla":
                res.runs += len(begins)
            res.states += st["distinct"]
            res.transitions += st["states"]
    res.traces = snaps
    return check.finish_trace_check(prop, tier, seed, res, t0, total,
                                    {"solves_through_snapshot_compared": res.cover.get("paired", 0),
                                     "version_sets_added": res.cover.get("added", 0)})


CHECKS["C16"] = _c16
check.ALSO["C16"] = ["C02_VerdictDiffers", "C02_UnsatButSatisfiable", "C04_Panic", "C01_V_RootReq", "C01_V_RootCons",
                     "C01_V_Known", "C01_V_Req", "C01_V_Cons", "C01_V_Excluded", "C01_V_Locked", "C01_V_OnePerName",
                     "C01_DupInSolution", "C01_NotASolvable"]
check.NONTRIVIAL["C16"] = ("captured", "a snapshot was captured and interrogated")
META["C16"] = _m("For generated providers with sparse, shuffled ids and random seed choices (names / version sets / solvables, the highest-numbered version set included), TLC compares the captured id sets with the closure Snapshot!Capture and every answer of the SnapshotProvider (candidates, exclusions, preference order, matching / non-matching lists, dependency records with union members in order) with the live universe; ids returned by add_package_requirement must be fresh and every captured version set must answer unchanged afterwards; the problem is solved live and through the snapshot (before and after a serde round trip) and TLC requires equal verdicts and solutions valid against the live data.", "6 C16", "TLA+ trace validation (TLC) of SnapshotProvider answers against Snapshot.tla; paired solves")


# ---------------------------------------------------------------------------
# C17 the C++ binding
# ---------------------------------------------------------------------------
def build_cpp():
    import subprocess
    r = subprocess.run([os.path.join(vlib.VERIF, "cppdrv", "build.sh")], capture_output=True, text=True,
                       env=vlib.env_offline())
    if r.returncode != 0:
        raise vlib.ToolError("C++ driver build failed:\n" + (r.stdout + r.stderr)[-3000:])


def _c17_solves(prop, tier, seed, wd):
    """Rust vs C++ on the same problems; returns (TraceResult, total, violations)."""
    import subprocess
    exe = vlib.build_harness("release")
    n = 100 if tier == "quick" else 1500
    allc = os.path.join(wd, "cpp.all")
    total = vlib.gen_cases(exe, allc, "solve:base,locks,excl,hints,soft,midconflict,cyclic,unionoverlap,hintexcl,softlone,unionempty", n, seed, "cppx",
                           whitebox=False)
    shards = vlib.split_file(allc, 8 if tier == "quick" else 16, wd, "cpp")
    viol = []
    traces = []
    for sh in shards:
        txt = sh[:-6] + ".txt"
        subprocess.run([exe, "cpp-export", "--cases", sh, "--out", txt], check=True)
        env = dict(os.environ)
        env["ASAN_OPTIONS"] = "detect_leaks=1:abort_on_error=0:exitcode=23"
        r = subprocess.run([os.path.join(vlib.VERIF, "cppdrv", "build", "solve_diff"), txt], capture_output=True,
                           text=True, env=env, timeout=1200)
        if r.returncode != 0:
            d = os.path.join(vlib.REPLAYS, prop)
            os.makedirs(d, exist_ok=True)
            path = os.path.join(d, "solve_diff_sanitizer.txt")
            open(path, "w").write(f"input: {txt}\nexit: {r.returncode}\n" + r.stderr[-6000:])
            viol.append((f"solve through the C++ binding ended with exit code {r.returncode} (sanitizer report or crash)", path))
        cpp = {}
        for line in r.stdout.splitlines():
            f = line.split()
            if len(f) >= 3 and f[0] == "RESULT":
                if f[2] == "sat":
                    cpp[int(f[1])] = ("sat", [int(x) for x in f[4:]], "")
                else:
                    cpp[int(f[1])] = ("unsat", [], bytes.fromhex(f[3]).decode() if len(f) > 3 else "")
        t = sh[:-6] + ".trace"
        vlib.run_cases(exe, sh, t)
        # place the C++ result of every case right after the Rust run of the same case
        m = sh[:-6] + ".paired.trace"
        with open(t) as fin, open(m, "w") as fout:
            begin = None
            for line in fin:
                fout.write(line)
                if '"ev":"begin"' in line:
                    begin = json.loads(line)
                elif line.startswith('{"ev":"end"}') and begin is not None:
                    cid = begin["id"]
                    if cid in cpp:
                        k, sol, msg = cpp[cid]
                        b = dict(begin)
                        b["cfg"] = dict(begin["cfg"], same="result", group=begin["cfg"]["group"] or cid)
                        b["profile"] = begin["profile"] + "+cpp"
                        fout.write(json.dumps(b) + "\n")
                        fout.write(json.dumps({"ev": "result", "kind": "unsat_nograph" if k == "unsat" else "sat", "phase": "",
                                               "site": "", "msg": msg, "sol": sol, "v": 0,
                                               "graph": {"nodes": [], "edges": [], "root": 0}, "lines": 0, "msglen": len(msg),
                                               "dot": 0, "dots": 0}) + "\n")
                        fout.write('{"ev":"end"}\n')
                    begin = None
        traces.append(m)
    return traces, total, viol


def _c17(prop, tier, seed, t0):
    check.enable_rules(prop)
    build_cpp()
    wd = vlib.fresh_dir(os.path.join(vlib.WORK, prop))
    traces, total, viol = _c17_solves(prop, tier, seed, wd)
    import concurrent.futures as cf
    res = vlib.TraceResult()
    with cf.ThreadPoolExecutor(max_workers=12) as ex:
        for fails, covers, begins, st in ex.map(lambda t: vlib.validate_trace(t, tag=prop), traces):
            res.fails += fails
            for (_i, _k, tags) in covers:
                for tg in tags:
                    res.cover[tg] += 1
                    res.cover_runs[tg].add((_i, _k))
            res.runs += len(begins)
            for (_i, _k, prof) in begins:
                res.profiles[prof] += 1
            res.states += st["distinct"]
            res.transitions += st["states"]
    res.traces = traces
    extra, cow_viol = {}, []
    if "cow_check" in globals():
        extra, cow_viol = cow_check(prop, tier, seed, wd)
    return check.finish_trace_check(prop, tier, seed, res, t0, total,
                                    dict({"cpp_results_compared": res.cover.get("cpp_paired", 0),
                                          "sanitizers": "AddressSanitizer + LeakSanitizer + UndefinedBehaviorSanitizer on the C++ drivers"}, **extra),
                                    extra_violations=viol + cow_viol,
                                    extra_states=extra.get("cow_states", 0), extra_transitions=extra.get("cow_transitions", 0))


CHECKS["C17"] = _c17
check.ALSO["C17"] = ["C02_UnsatButSatisfiable", "C01_V_RootReq", "C01_V_RootCons", "C01_V_Req", "C01_V_Cons",
                     "C01_V_Excluded", "C01_V_Locked", "C01_V_OnePerName", "C01_DupInSolution", "C01_NotASolvable", "C04_Panic", "C04_Crash"]
check.NONTRIVIAL["C17"] = ("cpp_paired", "a problem solved through C++ and through Rust, results compared")
META["C17"] = _m("Generated problems (everything the C++ interface can express: requirements, constraints, soft requirements, unions, favored / locked / excluded candidates, hint lists) are solved through resolvo::solve with a C++ DependencyProvider and through the Rust API with the equivalent provider; the two results are placed side by side in one trace and TLC requires the identical solution sequence or the identical error text (and judges both against the oracle). The C++ drivers are compiled from the freshly built binding with AddressSanitizer and LeakSanitizer, layout static_asserts included; the container protocol is model checked (CowVector.tla) and every transition of its state graph is replayed by a C++ driver through the real Vector / String on both sides of the FFI.", "6 C17", "TLA+ trace validation (TLC) of paired C++/Rust results; TLC state graph of the copy-on-write container protocol replayed in C++ under ASan",
                 note="What TLC decides is the refcount / copy-on-write protocol and the result equality; memory errors are observed by the sanitizers during the runs, not proved absent. MSan / TSan are not used (single-threaded use).")


def cow_check(prop, tier, seed, wd):
    """CowVector.tla: TLC checks the protocol invariants and prints the state graph;
    every transition is replayed in C++ on Vector<uint32_t> and Vector<String>."""
    import collections
    import subprocess
    out, st = vlib.tlc("MC_CowVector.tla", f"MC_CowVector_{tier}.cfg", os.path.join(vlib.WORK, "md_cow"), workers=8,
                       timeout=1800, java_opts="-Xss256m -Xmx6g -XX:+UseParallelGC")
    if "No error has been found" not in out:
        tail = "\n".join(l for l in out.splitlines() if not l.startswith('"'))[-3000:]
        if "violated" in out:
            d = os.path.join(vlib.REPLAYS, prop)
            os.makedirs(d, exist_ok=True)
            path = os.path.join(d, "cowvector_model_counterexample.txt")
            open(path, "w").write(tail)
            return {}, [("the CowVector model violates one of its invariants", path)]
        raise vlib.ToolError("TLC failed on MC_CowVector:\n" + tail)
    # rebuild the graph, BFS tree, one script per edge
    keys, edges, init = {}, [], None
    def kid(k):
        return keys.setdefault(k, len(keys))
    for line in out.splitlines():
        if line.startswith('"INIT|'):
            f = vlib.unescape(line[1:-1]).split("|")
            init = kid(f[1])
        elif line.startswith('"EDGE|'):
            f = vlib.unescape(line[1:-1]).split("|")
            edges.append((kid(f[1]), json.loads(f[2]), kid(f[3]), json.loads(f[4])))
    outs = collections.defaultdict(list)
    for i, e in enumerate(edges):
        outs[e[0]].append(i)
    parent = {init: None}
    q = collections.deque([init])
    while q:
        s = q.popleft()
        for ei in outs[s]:
            t = edges[ei][2]
            if t not in parent:
                parent[t] = ei
                q.append(t)
    def path_to(s):
        p = []
        while parent[s] is not None:
            p.append(parent[s])
            s = edges[parent[s]][0]
        return p[::-1]
    # contents of every handle in every state (from the observations on incoming edges)
    state_obs = {}
    for e in edges:
        state_obs[e[2]] = e[3]
    def fmt(e):
        _f, op, _t, obs = e
        d = op["d"]
        if op["op"] == "consume_rust":
            pre = state_obs.get(e[0])
            data = pre[op["x"] - 1]["data"] if pre else []
            digest = 0
            for i in range(op["y"]):
                digest = digest * 10 + (data[i] if i < len(data) else 9)
            d = [digest]
        lines = [f"O {op['op']} {op['x']} {op['y']} {len(d)} " + " ".join(str(x) for x in d)]
        parts = []
        for h in obs:
            parts.append(f"{1 if h['alive'] else 0} {h['rc']} {len(h['data'])} " + " ".join(str(x) for x in h["data"]))
        lines.append(f"E {len(obs)} " + " ".join(parts))
        return lines
    script = os.path.join(wd, "cow.script")
    nscripts = 0
    with open(script, "w") as f:
        for i, e in enumerate(edges):
            if e[0] not in parent:
                continue
            f.write("S\n")
            for pe in path_to(e[0]):
                f.write("\n".join(fmt(edges[pe])) + "\n")
            f.write("\n".join(fmt(e)) + "\n")
            nscripts += 1
    viol = []
    env = dict(os.environ)
    env["ASAN_OPTIONS"] = "detect_leaks=1:abort_on_error=0:exitcode=23"
    results = {}
    for ty in ("u32", "string"):
        r = subprocess.run([os.path.join(vlib.VERIF, "cppdrv", "build", "replay_cow"), script, ty], capture_output=True,
                           text=True, env=env, timeout=1800)
        results[ty] = r.stdout.strip().splitlines()[-1] if r.stdout.strip() else ""
        if r.returncode != 0:
            d = os.path.join(vlib.REPLAYS, prop)
            os.makedirs(d, exist_ok=True)
            path = os.path.join(d, f"replay_cow_{ty}.txt")
            open(path, "w").write(f"script: {script}\nexit: {r.returncode}\n{r.stdout[-3000:]}\n{r.stderr[-6000:]}")
            viol.append((f"container replay (Vector<{ty}>) exit code {r.returncode}: "
                         + (r.stdout.strip().splitlines()[0] if r.stdout.strip() else "sanitizer report"), path))
    vlib.log(f"[{prop}] CowVector: {st['distinct']} states, {len(edges)} transitions replayed per element type: {results}")
    return {"cow_states": st["distinct"], "cow_transitions": st["states"], "cow_edges_replayed": len(edges) * 2,
            "cow_scripts": nscripts, "cow_results": results}, viol


# ---------------------------------------------------------------------------
# C10 / C11: all completion orders of small universes (stateless DFS explorer)
# ---------------------------------------------------------------------------
def explore_schedules(prop, tier, seed, wd, n, max_sched):
    import subprocess
    import concurrent.futures as cf
    exe = vlib.build_harness("release")
    allc = os.path.join(wd, "explore.all")
    cnt = vlib.gen_cases(exe, allc, "solve:small,hints,fan", n, seed + 77, "", whitebox=False, render=False, first_id=5001)
    # one universe per shard when there are many schedules: the trace of a universe holds every
    # completion order of it (each run repeats the universe record), and TLC loads a trace whole
    shards = vlib.split_file(allc, 12 if max_sched <= 400 else min(cnt, 64), wd, "explore")
    traces, summ = [], []
    def one(sh):
        t = sh[:-6] + ".trace"
        r = subprocess.run([exe, "explore", "--cases", sh, "--out", t, "--max-schedules", str(max_sched)],
                           capture_output=True, text=True)
        if r.returncode != 0:
            raise vlib.ToolError("vh explore failed: " + r.stderr[-2000:])
        return t, json.load(open(t + ".summary"))
    with cf.ThreadPoolExecutor(max_workers=12) as ex:
        for t, s in ex.map(one, shards):
            traces.append(t)
            summ += s
    res = vlib.TraceResult()
    with cf.ThreadPoolExecutor(max_workers=12) as ex:
        for fails, covers, begins, st in ex.map(lambda t: vlib.validate_trace(t, tag=prop + "x"), traces):
            res.fails += fails
            for (_i, _k, tags) in covers:
                for tg in tags:
                    res.cover[tg] += 1
                    res.cover_runs[tg].add((_i, _k))
            res.runs += len(begins)
            res.states += st["distinct"]
            res.transitions += st["states"]
    info = {"explored_universes": len(summ), "explored_schedules": sum(s["schedules"] for s in summ),
            "universes_explored_exhaustively": sum(1 for s in summ if s["exhaustive"]),
            "max_schedules_per_universe": max_sched}
    vlib.log(f"[{prop}] schedule explorer: {info}")
    return res, info


def _c10(prop, tier, seed, t0):
    check.enable_rules(prop)
    wd = vlib.fresh_dir(os.path.join(vlib.WORK, prop + "x"))
    xres, info = explore_schedules(prop, tier, seed, wd, 10 if tier == "quick" else 64, 300 if tier == "quick" else 1500)
    # the sampled schedules on larger universes
    rc = check.trace_check(prop, tier, seed, check.TRACE_PLANS[prop], t0, extra_cov=info)
    # fold the explorer's result into the evidence and verdict
    ev = json.load(open(os.path.join(vlib.EVIDENCE, f"{prop}.json")))
    fails = [f for f in vlib.first_fail_per_run(xres.fails) if check.owned_by(prop, f["rule"])]
    ev["coverage"]["traces_validated_against_impl"] += xres.runs
    ev["coverage"]["evaluations"] += xres.runs
    ev["coverage"]["distinct_nontrivial"] += len(xres.cover_runs.get("quiescent2", set()))
    ev["coverage"]["states"] += xres.states
    ev["coverage"]["transitions"] += xres.transitions
    ev["wall_s"] = round(time.time() - t0, 1)
    shown = set()
    for f in fails:
        if f["rule"] in shown:
            continue
        shown.add(f["rule"])
        path = vlib.write_replay(prop, f)
        print(f"VIOLATION property={prop} replay={path}")
        rc = 1
    ev["violations"] = ev.get("violations", 0) + len(fails)
    json.dump(ev, open(os.path.join(vlib.EVIDENCE, f"{prop}.json"), "w"), indent=1)
    return rc


CHECKS["C10"] = _c10
CHECKS["C11"] = _c10


# ---------------------------------------------------------------------------
# C15: the encoding itself (AtMostOne.tla replayed through the hook stream) and
# its use by the solver (wide universes)
# ---------------------------------------------------------------------------
def _c15(prop, tier, seed, t0):
    import subprocess
    cfg = "MC_AtMostOne.cfg" if tier == "quick" else "MC_AtMostOne_thorough.cfg"
    rep = check.graph_replay(prop, "amo", "MC_AtMostOne.tla", cfg, "amo", [], workers=2)
    # Whether the encoder emits exactly the stream AtMostOne!Add produces is conformance (a
    # different correct encoding would not): drift.  The property is judged on the REAL stream
    # by Trace_Amo.tla (Excl, Cons) for sizes around every power of two up to the bound.
    drift = rep.get("mismatches", 0)
    if drift:
        vlib.log(f"[{prop}] the encoder's clause stream differs from AtMostOne.tla at {drift} transitions: "
                 f"conformance drift, not a violation")
    exe = vlib.build_harness("release")
    wd = os.path.join(vlib.WORK, prop + "_amo")
    os.makedirs(wd, exist_ok=True)
    top = 270 if tier == "quick" else 1030
    ns = sorted(set(list(range(2, 20)) + [n for k in range(5, 11) for n in range(2 ** k - 1, 2 ** k + 3) if n <= top] + [top]))
    t = os.path.join(wd, "amo.trace")
    subprocess.run([exe, "amo-dump", "--ns", ",".join(str(n) for n in ns), "--out", t], check=True)
    afails, acovers, abegins, ast_ = vlib.validate_trace(t, "Trace_Amo.tla", "Trace_Amo.cfg", tag=prop + "amo")
    as_model = sum(1 for (_i, _k, tags) in acovers if "stream_as_model" in tags)
    info = {"atmostone_states": rep.get("tlc_states", 0), "atmostone_transitions_replayed": rep.get("edges", 0),
            "atmostone_max_candidates": top, "atmostone_stream_drift_transitions": drift,
            "real_streams_judged_by_Trace_Amo": len(abegins), "real_streams_equal_to_model": as_model,
            "real_stream_sizes": ns}
    rc = check.trace_check(prop, tier, seed, check.TRACE_PLANS[prop], t0, extra_cov=info)
    if afails:
        f0 = afails[0]
        path = vlib.write_replay(prop, dict(f0, trace=None), {"amo_trace": t, "candidates": f0["id"]})
        print(f"VIOLATION property={prop} replay={path}")
        vlib.log(f"  rule={f0['rule']} n={f0['id']} info={f0['info'][:200]}")
        ev = json.load(open(os.path.join(vlib.EVIDENCE, f"{prop}.json")))
        ev["violations"] = ev.get("violations", 0) + len(afails)
        json.dump(ev, open(os.path.join(vlib.EVIDENCE, f"{prop}.json"), "w"), indent=1)
        rc = 1
    return rc


CHECKS["C15"] = _c15
META["C15"] = _m("AtMostOne.tla (transcription of AtMostOnceTracker::add) is model checked for n <= 270 (quick) / 1030 (thorough) candidates (Minimal at every n; Excl: any two candidates clash on some helper, Cons: every single candidate is selectable, Complete - evaluated for every n <= 40 and around every power of two beyond, where a helper variable is added) and the clause set after every registration is compared with what the real encoder emits (hook stream; a difference is conformance drift). The statements Excl and Cons themselves are evaluated by TLC on the REAL clause stream for sizes around every power of two up to the bound (Trace_Amo.tla). Generated wide universes - all candidates known up front, revealed group by group along a chain, and revealed late under backtracked alternatives - require candidate pairs (Unsolvable per the oracle) and single candidates; verdict, validity and the final assignment against the clause database are judged by TLC.", "6 C15", "TLC model checking of AtMostOne.tla + replay against the encoder's clause stream; TLA+ trace validation of wide-package problems")
for _p, _t in (("C10", "TLA+ trace validation (TLC) of executions under controlled completion orders: exhaustive DFS over all orders of small universes, FIFO/LIFO/random on larger ones"),
               ("C11", "TLA+ trace validation (TLC) of quiescent pending sets under exhaustively enumerated and sampled completion orders")):
    META[_p]["technique"] = _t
    META[_p]["text"] += " Small universes are additionally run under EVERY completion order (stateless depth-first explorer over the gate runtime, bounded per universe; the number explored exhaustively is in the evidence), all orders of one problem forming one comparison group with the synchronous run."


# ---------------------------------------------------------------------------
# C02 additionally cross-checks the oracle itself (MC_Universe.tla)
# ---------------------------------------------------------------------------
def oracle_sanity(prop, tier, seed):
    exe = vlib.build_harness("release")
    wd = os.path.join(vlib.WORK, prop)
    os.makedirs(wd, exist_ok=True)
    cases = os.path.join(wd, "oracle.cases")
    n = 15 if tier == "quick" else 150
    cnt = vlib.gen_cases(exe, cases, "solve:small,base,soft,direct,clean,locks,excl", n, seed + 5, "", render=False)
    out, st = vlib.tlc("MC_Universe.tla", "MC_Universe.cfg", os.path.join(vlib.WORK, f"md_oracle_{prop}"),
                       env_extra={"CASES": cases}, workers=1, timeout=1800, java_opts="-Xss1g -Xmx4g")
    if "No error has been found" not in out:
        tail = "\n".join(l for l in out.splitlines() if not l.startswith('"'))[-3000:]
        raise vlib.ToolError("the oracle operators disagree with their naive definitions (MC_Universe):\n" + tail)
    return {"oracle_cases_cross_checked": cnt, "oracle_states": st["distinct"]}


def _c02(prop, tier, seed, t0):
    info = oracle_sanity(prop, tier, seed)
    return check.trace_check(prop, tier, seed, check.TRACE_PLANS[prop], t0, extra_cov=info)


CHECKS["C02"] = _c02


# ---------------------------------------------------------------------------
# AsyncFetch.tla: all interleavings of the fetch protocol (MC) and the
# pending-set monitor Trace_Async.tla over the recorded async runs
# ---------------------------------------------------------------------------
def mc_asyncfetch(prop, tier, seed, cfg="MC_AsyncFetch.cfg"):
    exe = vlib.build_harness("release")
    wd = os.path.join(vlib.WORK, prop)
    os.makedirs(wd, exist_ok=True)
    cases = os.path.join(wd, "asyncfetch.cases")
    n = 12 if tier == "quick" else 60
    cnt = vlib.gen_cases(exe, cases, "solve:tiny", n, seed + 31, "hints", render=False)
    try:
        out, st = vlib.tlc("AsyncFetch.tla", cfg, os.path.join(vlib.WORK, f"md_af_{prop}"),
                           env_extra={"CASES": cases}, workers=8, timeout=300 if tier == "quick" else 3000,
                           java_opts="-Xss1g -Xmx8g -XX:+UseParallelGC -XX:ParallelGCThreads=4")
    except vlib.ToolError as e:
        if "timeout" not in str(e):
            raise
        return {"asyncfetch_mc_incomplete": True}, []
    if "No error has been found" not in out:
        tail = "\n".join(l for l in out.splitlines() if not l.startswith('"'))[-2500:]
        if "violated" in out:
            d = os.path.join(vlib.REPLAYS, prop)
            os.makedirs(d, exist_ok=True)
            path = os.path.join(d, "asyncfetch_counterexample.txt")
            open(path, "w").write(tail)
            return {}, [("the AsyncFetch model violates one of its properties", path)]
        raise vlib.ToolError("TLC failed on AsyncFetch:\n" + tail)
    return {"asyncfetch_cases": cnt, "asyncfetch_states": st["distinct"], "asyncfetch_transitions": st["states"],
            "asyncfetch_cfg": cfg,
            "asyncfetch_properties": (["NoDeadlock", "NoDuplicateCall", "MaxIssued", "Causal", "ResultIndependent",
                                       "EncodeTerminates (liveness)"] if cfg == "MC_AsyncFetch.cfg" else
                                      ["NoDeadlock and NoDuplicateCall across cancellation at any quiescent point, "
                                       "dropped requests and a second solve on the same solver"])}, []


def async_monitor(prop, traces):
    import concurrent.futures as cf
    fails, cover, st_states, st_trans = [], {}, 0, 0
    def one(t):
        # the monitor measures conformance to AsyncCore: a trace it cannot finish in time (the
        # set of consistent model states can grow large on wide fan-outs) is counted, not fatal
        try:
            return vlib.validate_trace(t, "Trace_Async.tla", "Trace_Async.cfg", tag=prop + "a", timeout=900)
        except vlib.ToolError as e:
            vlib.log(f"[{prop}] pending-set monitor did not finish {os.path.basename(t)}: {str(e)[:120]}")
            return [], [(0, 0, ["monitor_incomplete"])], [], {"distinct": 0, "states": 0}
    with cf.ThreadPoolExecutor(max_workers=12) as ex:
        for f, covers, begins, st in ex.map(one, traces):
            fails += f
            for (_i, _k, tags) in covers:
                for tg in tags:
                    cover[tg] = cover.get(tg, 0) + 1
            st_states += st["distinct"]
            st_trans += st["states"]
    return fails, cover, st_states, st_trans


def _c10(prop, tier, seed, t0):
    check.enable_rules(prop)
    wd = vlib.fresh_dir(os.path.join(vlib.WORK, prop + "x"))
    xres, info = explore_schedules(prop, tier, seed, wd, 10 if tier == "quick" else 64, 300 if tier == "quick" else 1500)
    mc_info, mc_viol = mc_asyncfetch(prop, tier, seed)
    info.update(mc_info)
    rc = check.trace_check(prop, tier, seed, check.TRACE_PLANS[prop], t0, extra_cov=info)
    # the pending-set monitor over every async trace recorded above
    import glob
    traces = sorted(glob.glob(os.path.join(vlib.WORK, prop, "*.trace"))) + sorted(glob.glob(os.path.join(wd, "*.trace")))
    afails, acover, astates, atrans = async_monitor(prop, traces)
    # conformance to the AsyncCore model is measured; a mismatch (drift) is not a violation of
    # C10 / C11 - an implementation may need fewer filter / sort requests, for instance - but
    # it makes the quick tier look harder: more universes under every completion order and
    # the sampled plans at five times the size, judged by the properties' own rules
    drift = [f for f in afails if f["rule"] in check.DRIFT_RULES]
    afails = [f for f in afails if f["rule"] not in check.DRIFT_RULES]
    ev = json.load(open(os.path.join(vlib.EVIDENCE, f"{prop}.json")))
    fails = [f for f in vlib.first_fail_per_run(xres.fails) if check.owned_by(prop, f["rule"])]
    fails += [f for f in vlib.first_fail_per_run(afails) if check.owned_by(prop, f["rule"])]
    deep_info = {}
    if drift:
        vlib.log(f"[{prop}] fetch-protocol drift against AsyncCore at {len(drift)} points "
                 f"(first: {drift[0]['rule']} case {drift[0]['id']}): not a violation")
        deep_info = {"asynccore_drift_points": len(drift), "asynccore_drift_first": drift[0]["rule"]}
        if tier == "quick" and rc == 0 and not fails and not mc_viol:
            wd2 = vlib.fresh_dir(os.path.join(vlib.WORK, prop + "x_deep"))
            xres2, info2 = explore_schedules(prop, tier, seed + 7919, wd2, 40, 600)
            res2 = check.run_plans_scaled(prop, check.TRACE_PLANS[prop], 5, seed + 7919, "_deep")
            more = [f for f in vlib.first_fail_per_run(xres2.fails + res2.fails)
                    if check.owned_by(prop, f["rule"]) and f["rule"] not in check.DRIFT_RULES]
            fails += more
            deep_info["deepened_after_conformance_drift"] = {"extra_runs": xres2.runs + res2.runs,
                                                             "extra_schedules": info2.get("explored_schedules", 0)}
    c = ev["coverage"]
    c["traces_validated_against_impl"] += xres.runs
    c["evaluations"] += xres.runs
    c["distinct_nontrivial"] += len(xres.cover_runs.get("quiescent2", set()))
    c["states"] += xres.states + astates + mc_info.get("asyncfetch_states", 0)
    c["transitions"] += xres.transitions + atrans + mc_info.get("asyncfetch_transitions", 0)
    c.update(deep_info)
    c["pending_set_monitor_traces_not_finished"] = acover.get("monitor_incomplete", 0)
    c["pending_set_monitor"] = {"encodes_followed": acover.get("encode_followed", 0),
                                "quiescent_points_compared": acover.get("pending", 0),
                                "with_two_or_more_pending": acover.get("pending2", 0),
                                "with_ambiguous_model_state": acover.get("ambiguous", 0)}
    ev["wall_s"] = round(time.time() - t0, 1)
    shown = set()
    for f in fails:
        if f["rule"] in shown:
            continue
        shown.add(f["rule"])
        path = vlib.write_replay(prop, f)
        print(f"VIOLATION property={prop} replay={path}")
        vlib.log(f"  rule={f['rule']} case={f['id']} info={f['info'][:300]}")
        rc = 1
    for (msg, path) in mc_viol:
        print(f"VIOLATION property={prop} replay={path}")
        rc = 1
    ev["violations"] = ev.get("violations", 0) + len(fails) + len(mc_viol)
    json.dump(ev, open(os.path.join(vlib.EVIDENCE, f"{prop}.json"), "w"), indent=1)
    return rc


CHECKS["C10"] = _c10
CHECKS["C11"] = _c10
for _p in ("C10", "C11"):
    META[_p]["text"] += " AsyncFetch.tla (run-to-quiescence model of Encoder + SolverCache) is model checked over all interleavings of tiny universes (no deadlock, no duplicate call, maximal issuance, causality, order-independent result, termination), and Trace_Async.tla follows the first encode of every recorded async run through that model: the multiset of outstanding provider requests must equal the model's at every quiescent point."


def _c12_c13(prop, tier, seed, t0):
    info, viol = mc_asyncfetch(prop, tier, seed, cfg="MC_AsyncFetch_reuse.cfg")
    rc = check.trace_check(prop, tier, seed, check.TRACE_PLANS[prop], t0, extra_cov=info)
    ev = json.load(open(os.path.join(vlib.EVIDENCE, f"{prop}.json")))
    ev["coverage"]["states"] += info.get("asyncfetch_states", 0)
    ev["coverage"]["transitions"] += info.get("asyncfetch_transitions", 0)
    for (msg, path) in viol:
        print(f"VIOLATION property={prop} replay={path}")
        ev["violations"] = ev.get("violations", 0) + 1
        rc = 1
    json.dump(ev, open(os.path.join(vlib.EVIDENCE, f"{prop}.json"), "w"), indent=1)
    return rc


CHECKS["C12"] = _c12_c13
CHECKS["C13"] = _c12_c13
for _p in ("C12", "C13"):
    META[_p]["text"] += " At design level AsyncFetch.tla is model checked with cancellation fired at any quiescent point, all in-flight requests dropped, and a second solve on the same solver: no deadlock and no duplicate call (with CleanupOnDrop = FALSE, the code as shipped, TLC reproduces the deadlock of the second solve; MC_AsyncFetch_asshipped.cfg)."


def _c19(prop, tier, seed, t0):
    import subprocess
    ids = "0,1,127,128,300" if tier == "quick" else "0,1,2,126,127,128,129,255,256,1000"
    rep = check.graph_replay(prop, "mapping", "MC_Mapping.tla", f"MC_Mapping_{tier}.cfg", "mapping", ["--ids", ids],
                             workers=8)
    # implementation -> spec: random histories with sparse / large ids followed through Mapping.tla
    exe = vlib.build_harness("release")
    wd = os.path.join(vlib.WORK, prop)
    os.makedirs(wd, exist_ok=True)
    nh = 100 if tier == "quick" else 400
    traces = []
    for i in range(4 if tier == "quick" else 12):
        t = os.path.join(wd, f"hist{i}.trace")
        subprocess.run([exe, "mapping-histories", "--n", str(nh // 4), "--seed", str(seed * 100 + i), "--out", t], check=True)
        traces.append(t)
    import concurrent.futures as cf
    fails, events, hist, sparse = [], 0, 0, 0
    with cf.ThreadPoolExecutor(max_workers=8) as ex:
        for f, covers, begins, st in ex.map(lambda t: vlib.validate_trace(t, "Trace_Mapping.tla", "Trace_Mapping.cfg", tag=prop), traces):
            fails += f
            events += st["states"]
            hist += len(begins)
            sparse += len(covers)
    extra = {"random_histories_validated": hist, "history_events": events, "events_with_3_sparse_entries": sparse,
             "ids": ids}
    rc = check.finish_graph_check(prop, tier, seed, t0, [rep], extra)
    if fails:
        f0 = vlib.first_fail_per_run(fails)[0]
        path = vlib.write_replay(prop, dict(f0, trace=None), {"history_trace": f0["trace"]})
        print(f"VIOLATION property={prop} replay={path}")
        vlib.log(f"  rule={f0['rule']} history={f0['id']} info={f0['info'][:300]}")
        ev = json.load(open(os.path.join(vlib.EVIDENCE, f"{prop}.json")))
        ev["violations"] = ev.get("violations", 0) + len(fails)
        json.dump(ev, open(os.path.join(vlib.EVIDENCE, f"{prop}.json"), "w"), indent=1)
        rc = 1
    return rc


CHECKS["C19"] = _c19
META["C19"]["text"] += " In the other direction, random histories (20-60 operations each, ids dense, around the 128-slot chunk boundaries and up to 5000) are recorded from the real Mapping with the full observation after every operation and followed through Mapping.tla by TLC (Trace_Mapping.tla)."
META["C19"]["technique"] = "TLC state-graph generation + replay of every transition into the real Mapping; TLA+ trace validation of random histories"


# ---------------------------------------------------------------------------
# texts added with the step rules, the step-exact replay and the profiles of round 5
# ---------------------------------------------------------------------------
_SX = (" Recorded executions are additionally re-run through the watch-faithful model LazyCdclW with the decisions the code took "
       "(Trace_CdclW.tla, re-using the model's actions): clauses, propagation, learnt clauses, backjumps, restarts and the result are "
       "computed by the model and compared with the code (reproduced exactly on the unchanged tree), and TLC evaluates the model's "
       "invariants along these real executions; a divergence is recorded in the evidence as a conformance finding, not reported as a violation.")
for _p in ("C01", "C02", "C03", "C05", "C07", "C08", "C13", "C14", "C15"):
    META[_p]["text"] += _SX
META["C01"]["text"] += " Step rules: no clause is falsified when the solver moves on to a decision; every clause the rules demand for an installed solvable is in the database (requirements, constrains pairs, locks, exclusions, pairwise at-most-one through the helper variables)."
META["C02"]["text"] += " Step rules from LazyCdcl!TrailConsistent: levels never decrease along the trail, a decision opens the next level, an implied literal is not assigned below its antecedents; encoding completeness counts (a verdict is only as good as the clause database)."
META["C05"]["text"] += " Step rules from the guard of LazyCdcl!Decide, judged on every real decision: it serves a still unmet requirement of an installed solvable and takes one of its candidates."
META["C07"]["text"] += " Step rules: every requires clause lists the candidates of each version set in Universe!Sorted order (provider order, favored first), and every decision takes the first candidate of its clause that is not ruled out; long candidate lists (18-45 candidates) included."
META["C14"]["text"] += " Step rule from LazyCdcl's treatment of soft runs: a run for a soft requirement never removes from the trail what the runs before it established."
META["C15"]["text"] += " On every returned solution TLC requires AtMostOne!Excl of the real clause stream: any two candidate variables of one package clash on a helper variable (C15_PairNotExcluded)."
META["C17"]["text"] += " The C++ driver keeps ONE result vector (and a second handle on its buffer) across all solves, so a solve has to replace what an earlier one left behind; the drivers also run under UndefinedBehaviorSanitizer."
META["C18"]["text"] += " Unions of one to four members (the three representations of the small vector behind a union) are interned through iterators with and without an exact size."
META["C20"]["text"] += " Real solves over packages with 18-45 candidates and a favored candidate are validated by TLC against Universe!Sorted (the sorted list as the solver receives it; rule C07_ClauseCandidateOrder)."
META["C13"]["text"] += " The replay follows whole histories: several solves on one solver, the model keeping what the cache keeps (LazyCdclW!SolveAgain)."


# ---------------------------------------------------------------------------
# Apalache: inductive invariants (unbounded histories) for the Mapping and the
# reference-count protocol models
# ---------------------------------------------------------------------------
def apalache_inductive(prop, module, timeout=1500):
    """Returns (info dict, violations).  NOT-INDUCTIVE = the model breaks its invariant
    (reported like a TLC counterexample); tool trouble is recorded and not fatal: the TLC
    checks of the same invariants do not depend on it."""
    import subprocess
    env = dict(os.environ)
    env["APALACHE_TIMEOUT"] = str(timeout)
    t = time.time()
    try:
        r = subprocess.run([os.path.join(vlib.SPEC, "apalache", "check.sh"), module], capture_output=True, text=True,
                           env=env, timeout=2 * timeout + 60)
    except subprocess.TimeoutExpired:
        return {"apalache_" + module: "timeout"}, []
    if r.returncode == 0 and "INDUCTIVE " + module in r.stdout:
        vlib.log(f"[{prop}] Apalache: IndInv of {module} is inductive ({time.time()-t:.0f}s)")
        return {"apalache_" + module: "IndInv inductive (Init => IndInv, IndInv /\\ Next => IndInv')",
                "apalache_seconds": round(time.time() - t, 1)}, []
    if r.returncode == 1:
        d = os.path.join(vlib.REPLAYS, prop)
        os.makedirs(d, exist_ok=True)
        path = os.path.join(d, f"apalache_{module}_counterexample.txt")
        open(path, "w").write(r.stdout[-6000:])
        return {"apalache_" + module: "NOT inductive"}, [(f"Apalache: IndInv of {module} is not inductive", path)]
    vlib.log(f"[{prop}] Apalache did not complete on {module}: {(r.stdout + r.stderr)[-300:]}")
    return {"apalache_" + module: "not completed"}, []


_c19_tlc = CHECKS["C19"]
_c17_tlc = CHECKS["C17"]


def _with_apalache(inner, module):
    def run(prop, tier, seed, t0):
        rc = inner(prop, tier, seed, t0)
        info, viol = apalache_inductive(prop, module)
        ev = json.load(open(os.path.join(vlib.EVIDENCE, f"{prop}.json")))
        ev["coverage"].update(info)
        for (msg, path) in viol:
            print(f"VIOLATION property={prop} replay={path}")
            vlib.log("  " + msg)
            ev["violations"] = ev.get("violations", 0) + 1
            rc = 1
        ev["wall_s"] = round(time.time() - t0, 1)
        json.dump(ev, open(os.path.join(vlib.EVIDENCE, f"{prop}.json"), "w"), indent=1)
        return rc
    return run


CHECKS["C19"] = _with_apalache(_c19_tlc, "MappingInd")
CHECKS["C17"] = _with_apalache(_c17_tlc, "CowRefInd")
META["C19"]["text"] += " For histories of ANY length and arbitrary id values, Apalache shows LenIsCount and MaxBounds inductive on the same transition relation (spec/apalache/MappingInd.tla)."
META["C19"]["technique"] += "; inductive invariant with Apalache"
META["C17"]["text"] += " The reference-count protocol (RefCountExact, NoDangling, NoLeak, StaticIntact) is additionally shown inductive with Apalache for histories of any length over arbitrary handle and buffer ids (spec/apalache/CowRefInd.tla: CowVector.tla with the element data erased)."
META["C17"]["technique"] += "; inductive invariant of the reference-count protocol with Apalache"

for _p in ("C01", "C02", "C03", "C05", "C07", "C08", "C13", "C14"):
    META[_p]["technique"] += "; TLC model checking of the operational model LazyCdcl(W) for every admissible decision order; recorded executions re-run through the model (Trace_CdclW.tla)"
META["C15"]["technique"] = "TLC model checking of AtMostOne.tla; TLA+ trace validation (TLC) of the encoder's real clause stream (Trace_Amo.tla) and of wide-package problems; recorded executions re-run through LazyCdclW"
META["C04"]["technique"] += "; TLC model checking of LazyCdclW (assert-site invariants, termination under weak fairness)"
