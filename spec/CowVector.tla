----------------------------- MODULE CowVector -----------------------------
(***************************************************************************)
(* C17: the reference-counted, copy-on-write vector shared between Rust    *)
(* (cpp/src/vector.rs) and C++ (resolvo_vector.h).                         *)
(*                                                                         *)
(* A handle is a Vector object on either side of the FFI; it points to a   *)
(* buffer [rc, data].  Buffer 0 is the static empty buffer (rc = -1, never *)
(* written, never freed).  Operations follow the code:                     *)
(*   copy       rc > 0 => rc + 1                                           *)
(*   drop       rc > 0 => rc - 1, freed at 0                               *)
(*   detach(n)  if rc # 1 or the capacity is too small: copy the elements  *)
(*              into a fresh buffer (rc 1), drop the old one               *)
(*   push       detach(size + 1), append   (C++ push_back / Rust push)     *)
(*   mutaccess  C++ non-const begin(): detach(size)                        *)
(*   clear      C++: rc # 1 => become the static empty vector, else size 0 *)
(*   consume    Rust into_iter, k elements taken, iterator dropped         *)
(* Capacities are abstracted: whether an unshared push reallocates does    *)
(* not change any observable in this model (contents, refcounts).          *)
(***************************************************************************)
EXTENDS Integers, Sequences, FiniteSets, TLC

CONSTANTS Handles,     \* e.g. {1, 2, 3}
          Vals,        \* element values
          MaxLen, MaxBuf

VARIABLES h,     \* handle -> buffer id, or -1 when the handle does not exist
          buf,   \* buffer id -> [rc, data]; allocated buffers only
          next   \* next fresh buffer id
vars == <<h, buf, next>>

Static == [rc |-> -1, data |-> <<>>]
Live == {x \in Handles : h[x] # -1}

Init == /\ h = [x \in Handles |-> -1]
        /\ buf = (0 :> Static)
        /\ next = 1

Fresh(data) == [rc |-> 1, data |-> data]

\* releasing one reference to buffer b in buffer map m
Release(m, b) ==
  IF m[b].rc <= 0 THEN m
  ELSE IF m[b].rc = 1 THEN [x \in (DOMAIN m) \ {b} |-> m[x]]
  ELSE [m EXCEPT ![b].rc = m[b].rc - 1]

New(x) == /\ h[x] = -1
          /\ h' = [h EXCEPT ![x] = 0] /\ UNCHANGED <<buf, next>>

FromValues(x, data) ==
  /\ h[x] = -1 /\ next <= MaxBuf
  /\ h' = [h EXCEPT ![x] = next]
  /\ buf' = (next :> Fresh(data)) @@ buf
  /\ next' = next + 1

Copy(x, y) ==
  /\ h[x] # -1 /\ h[y] = -1
  /\ h' = [h EXCEPT ![y] = h[x]]
  /\ buf' = IF buf[h[x]].rc > 0 THEN [buf EXCEPT ![h[x]].rc = buf[h[x]].rc + 1] ELSE buf
  /\ UNCHANGED next

Drop(x) ==
  /\ h[x] # -1
  /\ h' = [h EXCEPT ![x] = -1]
  /\ buf' = Release(buf, h[x])
  /\ UNCHANGED next

\* the handle gets its own buffer holding `data` (copy-on-write)
Own(x, data) ==
  /\ next <= MaxBuf
  /\ h' = [h EXCEPT ![x] = next]
  /\ buf' = (next :> Fresh(data)) @@ Release(buf, h[x])
  /\ next' = next + 1

\* side is "cpp" or "rust": both detach a shared (or static) buffer first
Push(x, v, side) ==
  /\ h[x] # -1 /\ Len(buf[h[x]].data) < MaxLen
  /\ IF buf[h[x]].rc = 1
     THEN /\ buf' = [buf EXCEPT ![h[x]].data = Append(buf[h[x]].data, v)]
          /\ UNCHANGED <<h, next>>
     ELSE Own(x, Append(buf[h[x]].data, v))

MutAccess(x) ==
  /\ h[x] # -1
  /\ IF buf[h[x]].rc = 1 THEN UNCHANGED vars ELSE Own(x, buf[h[x]].data)

Clear(x) ==
  /\ h[x] # -1
  /\ IF buf[h[x]].rc = 1
     THEN buf' = [buf EXCEPT ![h[x]].data = <<>>] /\ UNCHANGED <<h, next>>
     ELSE h' = [h EXCEPT ![x] = 0] /\ buf' = Release(buf, h[x]) /\ UNCHANGED next

\* Rust: the vector is passed by value and consumed (k elements read, rest dropped)
Consume(x, k) ==
  /\ h[x] # -1 /\ k <= Len(buf[h[x]].data)
  /\ h' = [h EXCEPT ![x] = -1]
  /\ buf' = Release(buf, h[x])
  /\ UNCHANGED next

Next == \/ \E x \in Handles : New(x) \/ Drop(x) \/ MutAccess(x) \/ Clear(x)
        \/ \E x \in Handles, d \in {<<>>} \cup {<<v>> : v \in Vals} \cup {<<v, w>> : v \in Vals, w \in Vals} : FromValues(x, d)
        \/ \E x \in Handles, y \in Handles : Copy(x, y)
        \/ \E x \in Handles, v \in Vals, s \in {"cpp", "rust"} : Push(x, v, s)
        \/ \E x \in Handles, k \in 0..MaxLen : Consume(x, k)

Spec == Init /\ [][Next]_vars

(***************************************************************************)
(* Invariants                                                              *)
(***************************************************************************)
\* the reference count of every allocated buffer is the number of handles on it
RefCountExact == \A b \in (DOMAIN buf) \ {0} : buf[b].rc = Cardinality({x \in Live : h[x] = b})
\* no handle points to a freed buffer; no allocated buffer is unreachable (no leak)
NoDangling == \A x \in Live : h[x] \in DOMAIN buf
NoLeak == \A b \in (DOMAIN buf) \ {0} : \E x \in Live : h[x] = b
\* the static empty buffer is never written or freed
StaticIntact == 0 \in DOMAIN buf /\ buf[0] = Static
\* value semantics (action property): an operation on one handle leaves the contents
\* seen through every other live handle unchanged
ValueSemantics ==
  [][\A x \in Handles : (h[x] # -1 /\ h'[x] # -1 /\ buf[h[x]].data # buf'[h'[x]].data) =>
        \A y \in Handles \ {x} : (h[y] # -1 /\ h'[y] # -1) => buf[h[y]].data = buf'[h'[y]].data]_vars
=============================================================================
