SPECIFICATION Spec
CONSTANTS
  CleanupOnDrop = TRUE
  WithCancel = FALSE
INVARIANTS NoDeadlock NoDuplicateCall MaxIssued Causal ResultIndependent
PROPERTY EncodeTerminates
CHECK_DEADLOCK FALSE
