SPECIFICATION MCSpec
CONSTANTS
  NameVals = {1, 2}
  StrVals = {1}
  VsVals = {1, 2}
  RecVals = {1}
  BulkSizes = {127, 129, 300}
  MaxSolv = 2
  MaxUnion = 1
  MaxVs = 3
INVARIANTS InternUnique RetInRange
CHECK_DEADLOCK FALSE
