SPECIFICATION Spec
INVARIANTS NoDeadlock NoDuplicateCall MaxIssued Causal ResultIndependent
PROPERTY EncodeTerminates
CHECK_DEADLOCK FALSE
