#!/bin/sh
# Builds the FFI archive from /repo's working tree and the C++ drivers (ASan).
cd "$(dirname "$0")" || exit 2
mkdir -p build/include
export CARGO_NET_OFFLINE=true
RESOLVO_GENERATED_INCLUDE_DIR="$PWD/build/include" cargo build --release --offline --quiet 2> build/cargo.log || { cat build/cargo.log; exit 1; }
FLAGS="-std=c++17 -O1 -g -fsanitize=address,undefined -fno-sanitize-recover=undefined -fno-omit-frame-pointer -I /repo/cpp/include -I build/include"
for d in solve_diff replay_cow; do
  [ -f $d.cpp ] || continue
  clang++ $FLAGS $d.cpp target/release/libverif_ffi.a -lpthread -ldl -lm -o build/$d 2> build/$d.log || { cat build/$d.log; exit 1; }
done
echo cpp build ok
