------------------------------ MODULE LazyCdcl ------------------------------
(***************************************************************************)
(* Layer B: the canonical model of Solver::solve.                          *)
(*                                                                         *)
(* One action per critical section of the code (src/solver/mod.rs,         *)
(* encoding.rs):                                                           *)
(*   Install   run_sat: install the target (root or a soft requirement),   *)
(*             encode its clauses                        (mod.rs 396-446)  *)
(*   PropTop   propagate after an encode; a conflict at the first level of *)
(*             the run fails the target, a higher one restarts (448-482)   *)
(*   Decide    decide(): any requires clause whose parent is installed and *)
(*             that has no installed candidate, root's first (678-871);    *)
(*             its first non-false candidate is installed one level up     *)
(*   PropLearn propagate_and_learn: propagate to fixpoint; on a conflict   *)
(*             first-UIP analysis (analyze, 1304-1427), learnt clause,     *)
(*             backjump, assert                                            *)
(*   Check     the partial solution: encode newly installed solvables      *)
(*             (493-570), restart if an added clause conflicts             *)
(*   NextSoft  solve(): the next soft requirement (332-343)                *)
(* Lazy encoding (Encoder) is a macro step: the set of clauses it adds     *)
(* does not depend on the completion order of provider requests (that is   *)
(* AsyncFetch.tla's subject).  Propagation is a macro step to fixpoint.    *)
(* The only nondeterminism is the choice in Decide, so TLC proves the      *)
(* properties for every admissible decision heuristic.                     *)
(*                                                                         *)
(* Variables are solver variables: 0 = root, s = solvable s, NS+k = the    *)
(* k-th at-most-one helper.  A literal is <<variable, 0|1>>.               *)
(***************************************************************************)
EXTENDS Universe, CaseFile     \* Cases: sequence of [id, u, ps, ...] records

VARIABLES ci,           \* which case this behaviour solves
          sk,           \* which problem of the case's history is being solved (one solver)
          st            \* the solver state
vars == <<ci, sk, st>>

U == Cases[ci].u
P == Cases[ci].ps[sk]

NS == Len(U.solv)
Lit(v, pos) == <<v, IF pos THEN 1 ELSE 0>>

(***************************************************************************)
(* trail                                                                   *)
(***************************************************************************)
TrueLits(tr) == {Lit(tr[i].v, tr[i].val) : i \in DOMAIN tr}
\* the assignment as the set A of true literals
ValA(A, v) == IF <<v, 1>> \in A THEN "T" ELSE IF <<v, 0>> \in A THEN "F" ELSE "U"
LitValA(A, x) == IF x \in A THEN "T" ELSE IF Neg(x) \in A THEN "F" ELSE "U"
ValIn(tr, v) == ValA(TrueLits(tr), v)
LitVal(tr, x) == LitValA(TrueLits(tr), x)
LvlIn(tr, v) == IF \E i \in DOMAIN tr : tr[i].v = v THEN tr[CHOOSE i \in DOMAIN tr : tr[i].v = v].lvl ELSE 0
UndoTo(tr, l) == SeqFilter(tr, LAMBDA d : d.lvl <= l)     \* levels are non-decreasing along the trail
TopLevel(tr) == IF tr = <<>> THEN 0 ELSE tr[Len(tr)].lvl

(***************************************************************************)
(* at-most-one per package: transcription of AtMostOnceTracker::add        *)
(***************************************************************************)
BitOf(i, b) == (i \div (2 ^ b)) % 2 = 1

MkClause(kind, lits, par, why) == [kind |-> kind, lits |-> lits, par |-> par, why |-> why]

AmoAdd(s, n, c) ==
  LET vs0 == s.amo[n].vars IN
  IF \E i \in DOMAIN vs0 : vs0[i] = c THEN s
  ELSE IF vs0 = <<>> THEN [s EXCEPT !.amo[n].vars = <<c>>]
  ELSE LET RECURSIVE Grow(_)
           Grow(t) ==
             LET hs == t.amo[n].helpers IN
             IF Len(vs0) > 2 ^ Len(hs) - 1
             THEN LET h == t.nvars + 1
                      b == Len(hs)
                      newc == [i \in 1..Len(vs0) |->
                                 MkClause("forbid", {Lit(vs0[i], FALSE), Lit(h, BitOf(i - 1, b))}, vs0[i], <<>>)]
                  IN Grow([t EXCEPT !.amo[n].helpers = Append(hs, h), !.nvars = h, !.cls = t.cls \o newc])
             ELSE t
           s1 == Grow(s)
           idx == Len(vs0)
           hs1 == s1.amo[n].helpers
           own == [b \in 1..Len(hs1) |->
                     MkClause("forbid", {Lit(c, FALSE), Lit(hs1[b], BitOf(idx, b - 1))}, c, <<>>)]
       IN [s1 EXCEPT !.amo[n].vars = Append(vs0, c), !.cls = s1.cls \o own]

(***************************************************************************)
(* Encoder: the clauses of a set of solvables, as one macro step.  `q` is  *)
(* the queue of solvables whose dependencies are to be encoded (0 = root). *)
(* The assignment does not change during an encode.                        *)
(***************************************************************************)
HintedOf(n) == IF ~U.pkg[n].exists THEN {}
               ELSE IF U.pkg[n].hint.mode = "all" THEN Range(U.pkg[n].cands)
               ELSE IF U.pkg[n].hint.mode = "some" THEN Range(U.pkg[n].hint.list) ELSE {}

\* clause added; if `flag` it is reported as conflicting with the current assignment
AddClause(s, c, flag) ==
  [s EXCEPT !.cls = Append(s.cls, c), !.flagged = IF flag THEN s.flagged \cup {Len(s.cls) + 1} ELSE s.flagged]

AddExcluded(s, x) ==
  LET s1 == AddClause(s, MkClause("excluded", {Lit(x, FALSE)}, x, <<>>), ValIn(s.tr, x) = "T")
  IN [s1 EXCEPT !.asserts = Append(s1.asserts, <<x, Len(s1.cls)>>)]

\* candidates of package n become known: hint bits, lock clauses, exclusions
FetchPkg(s, n) ==
  IF n \in s.addP THEN s
  ELSE LET s0 == [s EXCEPT !.addP = s.addP \cup {n}, !.hint = s.hint \cup HintedOf(n)] IN
       IF ~U.pkg[n].exists THEN s0
       ELSE LET lk == U.pkg[n].locked
                others == SeqFilter(U.pkg[n].cands, LAMBDA c : c # lk)
                RECURSIVE Locks(_, _)
                Locks(t, cs) == IF cs = <<>> THEN t
                                ELSE Locks(AddClause(t, MkClause("lock", {Lit(0, FALSE), Lit(Head(cs), FALSE)}, lk, <<>>), FALSE),
                                           Tail(cs))
                s1 == IF lk = 0 THEN s0 ELSE Locks(s0, others)
                RECURSIVE Excl(_, _)
                Excl(t, es) == IF es = <<>> THEN t ELSE Excl(AddExcluded(t, Head(es)), Tail(es))
            IN Excl(s1, U.pkg[n].excluded)

RECURSIVE FetchPkgs(_, _)
FetchPkgs(s, ns) == IF ns = <<>> THEN s ELSE FetchPkgs(FetchPkg(s, Head(ns)), Tail(ns))

\* names mentioned by a dependency record, in the order the encoder queues them
NamesSeq(x) ==
  LET rs == ReqsOf(U, P, x) cs == ConsOf(U, P, x) IN
  Concat([i \in DOMAIN rs |-> [j \in DOMAIN rs[i] |-> U.vs[rs[i][j]].name]]) \o [i \in DOMAIN cs |-> U.vs[cs[i]].name]

\* one requirement of x: candidates are interned, registered with the
\* at-most-one tracker, queued eagerly when their dependencies are cheaply
\* available (and they are not assigned false), then the requires clause
EncodeReq(s, x, r) ==
  LET cands == ReqCands(U, r)
      RECURSIVE Reg(_, _)
      Reg(t, cs) ==
        IF cs = <<>> THEN t
        ELSE LET c == Head(cs)
                 \* are_dependencies_available_for: hinted, or fetched before (also by an earlier solve)
                 t1 == IF (c \in t.hint \/ c \in t.cD) /\ ValIn(t.tr, c) # "F" /\ c \notin t.addS /\ ~\E i \in DOMAIN t.q : t.q[i] = c
                       THEN [t EXCEPT !.q = Append(t.q, c)] ELSE t
             IN Reg(AmoAdd(t1, NameOf(U, c), c), Tail(cs))
      s1 == Reg(s, cands)
      lits == {Lit(x, FALSE)} \cup {Lit(cands[i], TRUE) : i \in DOMAIN cands}
      allFalse == cands # <<>> /\ \A i \in DOMAIN cands : ValIn(s.tr, cands[i]) = "F"
      s2 == AddClause(s1, [kind |-> "requires", lits |-> lits, par |-> x, why |-> <<>>, cands |-> cands], allFalse)
  IN IF cands = <<>> THEN [s2 EXCEPT !.asserts = Append(s2.asserts, <<x, Len(s2.cls)>>)] ELSE s2

EncodeCon(s, x, v) ==
  LET RECURSIVE Go(_, _)
      Go(t, cs) ==
        IF cs = <<>> THEN t
        ELSE LET c == Head(cs)
                 t1 == AddClause(t, MkClause("constrains", {Lit(x, FALSE), Lit(c, FALSE)}, x, <<>>), ValIn(t.tr, c) = "T")
                 t2 == IF c = x THEN [t1 EXCEPT !.asserts = Append(t1.asserts, <<x, Len(t1.cls)>>)] ELSE t1
             IN Go(t2, Tail(cs))
  IN Go(s, NonMatch(U, v))

EncodeSolvable(s, x) ==
  IF x \in s.addS THEN s
  ELSE LET s0 == [s EXCEPT !.addS = s.addS \cup {x}, !.cD = IF x = 0 THEN s.cD ELSE s.cD \cup {x}] IN
       IF x # 0 /\ ~U.solv[x].known THEN AddExcluded(s0, x)
       ELSE LET s1 == FetchPkgs(s0, NamesSeq(x))
                rs == ReqsOf(U, P, x)
                cs == ConsOf(U, P, x)
                RECURSIVE Reqs(_, _)
                Reqs(t, i) == IF i > Len(rs) THEN t ELSE Reqs(EncodeReq(t, x, rs[i]), i + 1)
                RECURSIVE Cons(_, _)
                Cons(t, i) == IF i > Len(cs) THEN t ELSE Cons(EncodeCon(t, x, cs[i]), i + 1)
            IN Cons(Reqs(s1, 1), 1)

RECURSIVE Drain(_)
Drain(s) == IF s.q = <<>> THEN s
            ELSE Drain(EncodeSolvable([s EXCEPT !.q = Tail(s.q)], Head(s.q)))

\* a directly installed solvable (soft requirement) joins its package's tracker first
Encode(s, xs) ==
  LET RECURSIVE Track(_, _)
      Track(t, ys) == IF ys = <<>> THEN t
                      ELSE Track(IF Head(ys) = 0 THEN t ELSE AmoAdd(t, NameOf(U, Head(ys)), Head(ys)), Tail(ys))
  IN Drain([Track(s, xs) EXCEPT !.q = xs, !.flagged = {}])

(***************************************************************************)
(* Propagation to fixpoint: negative assertions, unit learnt clauses, then *)
(* the lowest-numbered unit clause first.  Result: [tr, confl]             *)
(***************************************************************************)
IsFalse(A, c) == \A x \in c.lits : Neg(x) \in A
IsUnit(A, c)  == /\ \A x \in c.lits : x \notin A
                 /\ Cardinality({x \in c.lits : Neg(x) \notin A}) = 1

RECURSIVE ApplyAsserts(_, _, _)
ApplyAsserts(tr, as, L) ==
  IF as = <<>> THEN [tr |-> tr, confl |-> 0]
  ELSE LET v == Head(as)[1] id == Head(as)[2] a == ValIn(tr, v) IN
       IF a = "T" THEN [tr |-> tr, confl |-> id]
       ELSE ApplyAsserts(IF a = "U" THEN Append(tr, [v |-> v, val |-> FALSE, lvl |-> L, why |-> id]) ELSE tr, Tail(as), L)

RECURSIVE ApplyUnits(_, _, _, _)
ApplyUnits(cls, tr, ids, L) ==
  IF ids = <<>> THEN [tr |-> tr, confl |-> 0]
  ELSE LET x == CHOOSE x \in cls[Head(ids)].lits : TRUE
           a == LitVal(tr, x) IN
       IF a = "F" THEN [tr |-> tr, confl |-> Head(ids)]
       ELSE ApplyUnits(cls, IF a = "U" THEN Append(tr, [v |-> x[1], val |-> (x[2] = 1), lvl |-> L, why |-> Head(ids)]) ELSE tr,
                       Tail(ids), L)

\* `open`: indices of clauses with more than one literal that are not yet satisfied
RECURSIVE UPx(_, _, _, _, _)
UPx(cls, open0, tr, A, L) ==
  LET open == {i \in open0 : \A x \in cls[i].lits : x \notin A}
      falsified == {i \in open : IsFalse(A, cls[i])}
  IN IF falsified # {} THEN [tr |-> tr, confl |-> CHOOSE i \in falsified : \A j \in falsified : i <= j]
     ELSE LET units == {i \in open : Cardinality({x \in cls[i].lits : Neg(x) \notin A}) = 1} IN
          IF units = {} THEN [tr |-> tr, confl |-> 0]
          ELSE LET i == CHOOSE i \in units : \A j \in units : i <= j
                   x == CHOOSE x \in cls[i].lits : Neg(x) \notin A
               IN UPx(cls, open, Append(tr, [v |-> x[1], val |-> (x[2] = 1), lvl |-> L, why |-> i]), A \cup {x}, L)

Propagate(s, L) ==
  LET a == ApplyAsserts(s.tr, s.asserts, L) IN
  IF a.confl # 0 THEN a
  ELSE LET unitLearnt == SeqFilter([i \in DOMAIN s.cls |-> i],
                                   LAMBDA i : s.cls[i].kind = "learnt" /\ Cardinality(s.cls[i].lits) = 1)
           b == ApplyUnits(s.cls, a.tr, unitLearnt, L) IN
       IF b.confl # 0 THEN b
       ELSE UPx(s.cls, {i \in DOMAIN s.cls : Cardinality(s.cls[i].lits) > 1}, b.tr, TrueLits(b.tr), L)

(***************************************************************************)
(* First-UIP analysis, line by line from Solver::analyze                   *)
(***************************************************************************)
VisitLits(cls, a, c) ==
  LET relevant == {x \in c.lits : ~(~a.first /\ x[1] = a.cv) /\ x[1] \notin a.seen}
      atcur == {x \in relevant : LvlIn(a.tr, x[1]) = a.cur}
      lower == relevant \ atcur
  IN [a EXCEPT !.seen = a.seen \cup {x[1] : x \in relevant},
               !.causes = a.causes + Cardinality(atcur),
               !.learnt = a.learnt \cup {Lit(x[1], ValIn(a.tr, x[1]) # "T") : x \in lower},
               !.btl = LET ls == {LvlIn(a.tr, x[1]) : x \in lower} \cup {a.btl} IN CHOOSE m \in ls : \A k \in ls : m >= k,
               !.first = FALSE,
               !.why = Append(a.why, a.cid)]

RECURSIVE PopSeen(_)
PopSeen(a) ==
  LET d == a.tr[Len(a.tr)]
      tr2 == SubSeq(a.tr, 1, Len(a.tr) - 1)
      a2 == [a EXCEPT !.tr = tr2, !.cv = d.v, !.sval = d.val, !.cid = d.why, !.cur = TopLevel(tr2)]
  IN IF d.v \in a.seen THEN a2 ELSE PopSeen(a2)

RECURSIVE AnLoop(_, _)
AnLoop(cls, a) ==
  LET a1 == VisitLits(cls, a, cls[a.cid])
      a2 == PopSeen(a1)
      a3 == [a2 EXCEPT !.causes = IF a2.causes > 0 THEN a2.causes - 1 ELSE 0]
  IN IF a3.causes = 0 THEN a3 ELSE AnLoop(cls, a3)

Analyze(cls, tr, L, cid) ==
  AnLoop(cls, [tr |-> tr, seen |-> {}, learnt |-> {}, btl |-> 0, causes |-> 0, cid |-> cid, cv |-> -1,
               sval |-> TRUE, first |-> TRUE, cur |-> L, why |-> <<>>])

(***************************************************************************)
(* analyze_unsolvable: the clauses reported for an Unsolvable verdict      *)
(***************************************************************************)
RECURSIVE ExpandClause(_, _)
ExpandClause(cls, i) == IF cls[i].kind = "learnt"
                        THEN UNION {ExpandClause(cls, cls[i].why[k]) : k \in DOMAIN cls[i].why}
                        ELSE {i}

RECURSIVE UnsolvWalk(_, _, _, _, _)
UnsolvWalk(cls, tr, k, involved, acc) ==
  IF k = 0 THEN acc
  ELSE LET d == tr[k] IN
       IF d.v = 0 \/ d.v \notin involved THEN UnsolvWalk(cls, tr, k - 1, involved, acc)
       ELSE UnsolvWalk(cls, tr, k - 1,
                       involved \cup {x[1] : x \in {y \in cls[d.why].lits : LitVal(tr, y) # "T"}},
                       acc \cup ExpandClause(cls, d.why))
AnalyzeUnsolvable(cls, tr, cid) ==
  UnsolvWalk(cls, tr, Len(tr), {x[1] : x \in cls[cid].lits}, ExpandClause(cls, cid))

(***************************************************************************)
(* The state machine                                                       *)
(***************************************************************************)
S0 == [tr |-> <<>>, cls |-> <<MkClause("root", {Lit(0, TRUE)}, 0, <<>>)>>, asserts |-> <<>>,
       addS |-> {}, addP |-> {}, amo |-> [n \in Names(U) |-> [vars |-> <<>>, helpers |-> <<>>]],
       nvars |-> NS, hint |-> {}, cD |-> {}, q |-> <<>>, flagged |-> {},
       lvl |-> 0, start |-> 0, target |-> 0, softLeft |-> Cases[ci].ps[1].soft,
       pc |-> "install", outcome |-> [kind |-> "none"], nlearnt |-> 0, nrestart |-> 0]

Init == ci \in DOMAIN Cases /\ sk = 1 /\ st = S0

Install ==
  /\ st.pc = "install"
  /\ LET L == st.start + 1
         s1 == [st EXCEPT !.tr = Append(UndoTo(st.tr, st.start), [v |-> st.target, val |-> TRUE, lvl |-> L, why |-> 1]),
                          !.lvl = L]
         s2 == Encode(s1, <<st.target>>)
     IN st' = [s2 EXCEPT !.pc = "proptop"]

\* the target of this run cannot be installed
FailTarget(s, cid) ==
  IF s.start = 0
  THEN [s EXCEPT !.pc = "done", !.outcome = [kind |-> "unsat", ids |-> AnalyzeUnsolvable(s.cls, s.tr, cid)]]
  ELSE [s EXCEPT !.tr = Append(UndoTo(s.tr, s.start), [v |-> s.target, val |-> FALSE, lvl |-> s.start + 1, why |-> 1]),
                 !.pc = "nextsoft"]

PropTop ==
  /\ st.pc = "proptop"
  /\ LET r == Propagate(st, st.lvl) IN
     IF r.confl = 0 THEN st' = [st EXCEPT !.tr = r.tr, !.pc = "decide"]
     ELSE IF st.lvl = st.start + 1 THEN st' = FailTarget([st EXCEPT !.tr = r.tr], r.confl)
     ELSE st' = [st EXCEPT !.tr = UndoTo(r.tr, st.start), !.lvl = st.start, !.pc = "install",
                           !.nrestart = st.nrestart + 1]

\* requires clauses that need a decision: parent installed, no candidate installed
Open(s) == LET A == TrueLits(s.tr) IN
           {i \in DOMAIN s.cls : /\ s.cls[i].kind = "requires"
                                 /\ <<s.cls[i].par, 1>> \in A
                                 /\ ~\E x \in s.cls[i].lits : x[2] = 1 /\ x \in A}
FirstOpenCand(s, i) ==
  LET A == TrueLits(s.tr)
      cs == SeqFilter(s.cls[i].cands, LAMBDA c : <<c, 0>> \notin A) IN IF cs = <<>> THEN 0 ELSE cs[1]
\* explicit requirements (root's) are decided before any other
Choices(s) == LET o == Open(s)
                  ro == {i \in o : s.cls[i].par = 0}
              IN IF ro # {} THEN ro ELSE o

Decide ==
  /\ st.pc = "decide"
  /\ IF Open(st) = {} THEN st' = [st EXCEPT !.pc = "check"]
     ELSE \E i \in Choices(st) :
            LET c == FirstOpenCand(st, i) IN
            /\ c # 0
            /\ st' = [st EXCEPT !.lvl = st.lvl + 1,
                                !.tr = Append(st.tr, [v |-> c, val |-> TRUE, lvl |-> st.lvl + 1, why |-> i]),
                                !.pc = "proplearn"]

PropLearn ==
  /\ st.pc = "proplearn"
  /\ LET r == Propagate(st, st.lvl) IN
     IF r.confl = 0 THEN st' = [st EXCEPT !.tr = r.tr, !.pc = "decide"]
     ELSE IF st.lvl = 1
          THEN st' = [st EXCEPT !.tr = r.tr, !.pc = "done",
                                !.outcome = [kind |-> "unsat", ids |-> AnalyzeUnsolvable(st.cls, r.tr, r.confl)]]
     ELSE LET a == Analyze(st.cls, r.tr, st.lvl, r.confl)
              last == Lit(a.cv, ~a.sval)
              lits == a.learnt \cup {last}
              tgt == IF a.btl > st.start + 1 THEN a.btl ELSE st.start + 1
              id == Len(st.cls) + 1
              tr2 == UndoTo(a.tr, tgt)
          IN st' = [st EXCEPT !.cls = Append(st.cls, MkClause("learnt", lits, -1, a.why)),
                              !.tr = Append(tr2, [v |-> last[1], val |-> (last[2] = 1), lvl |-> tgt, why |-> id]),
                              !.lvl = tgt, !.nlearnt = st.nlearnt + 1]

Installed(s) == {s.tr[i].v : i \in {j \in DOMAIN s.tr : s.tr[j].val /\ s.tr[j].v \in 1..NS}}

Check ==
  /\ st.pc = "check"
  /\ LET new == SeqFilter([i \in DOMAIN st.tr |-> st.tr[i].v],
                          LAMBDA v : v \in Installed(st) /\ v \notin st.addS) IN
     IF new = <<>> THEN st' = [st EXCEPT !.pc = "nextsoft"]
     ELSE LET s2 == Encode(st, new) IN
          IF s2.flagged = {} THEN st' = [s2 EXCEPT !.pc = "proptop"]
          ELSE st' = [s2 EXCEPT !.tr = UndoTo(s2.tr, s2.start), !.lvl = s2.start, !.pc = "install",
                                !.nrestart = s2.nrestart + 1]

NextSoft ==
  /\ st.pc = "nextsoft"
  /\ IF st.softLeft = <<>>
     THEN st' = [st EXCEPT !.pc = "done", !.outcome = [kind |-> "sat", sol |-> Installed(st)]]
     ELSE LET x == Head(st.softLeft) IN
          IF ValIn(st.tr, x) # "U" THEN st' = [st EXCEPT !.softLeft = Tail(st.softLeft)]
          ELSE st' = [st EXCEPT !.softLeft = Tail(st.softLeft), !.target = x,
                                !.start = TopLevel(st.tr), !.lvl = TopLevel(st.tr), !.pc = "install"]

\* solve() is called again on the same solver: the solver state is reset, the cache
\* (hint bits, fetched dependency records) is kept                   (mod.rs 305-324)
SolveAgain ==
  /\ st.pc = "done" /\ sk < Len(Cases[ci].ps)
  /\ sk' = sk + 1
  /\ st' = [S0 EXCEPT !.hint = st.hint, !.cD = st.cD, !.softLeft = Cases[ci].ps[sk + 1].soft]
  /\ UNCHANGED ci

Next == \/ (Install \/ PropTop \/ Decide \/ PropLearn \/ Check \/ NextSoft) /\ UNCHANGED <<ci, sk>>
        \/ SolveAgain
Spec == Init /\ [][Next]_vars /\ WF_vars(Next)

(***************************************************************************)
(* Properties, for every behaviour (= every admissible decision order)     *)
(***************************************************************************)
Done == st.pc = "done"
IsSat == Done /\ st.outcome.kind = "sat"
IsUnsat == Done /\ st.outcome.kind = "unsat"

C01_ValidOnSat   == IsSat => Valid(U, P, st.outcome.sol, Range(P.soft))
C02_UnsatSound   == IsUnsat => ~Satisfiable(U, P)
C02_NoSoftError  == Done /\ Satisfiable(U, P) => ~IsUnsat
C05_Supported    == IsSat => Supported(U, P, st.outcome.sol)
C07_Preferred    == (IsSat /\ P.soft = <<>> /\ ConflictFree(U, Hard(P))) => st.outcome.sol = PreferredClosure(U, Hard(P))
C08_DirectBest   == (IsSat /\ DirectBestFeasible(U, P)) => DirectBest(U, P) \subseteq st.outcome.sol
C14_SoftObliged  == IsSat => SoftObliged(U, P) \subseteq st.outcome.sol
\* the reported clauses are problem clauses and are unsatisfiable together (C03)
C03_SelfContained == IsUnsat => /\ \A i \in st.outcome.ids : st.cls[i].kind # "learnt"
                                /\ Unsat({st.cls[i].lits : i \in st.outcome.ids}, {<<0, 1>>})
\* every learnt clause follows from the clauses before it by unit propagation
\* (the database only grows, so it is enough to look at it in terminal states)
LearntImplied == Done => \A i \in DOMAIN st.cls : st.cls[i].kind = "learnt" =>
                    RUP({st.cls[j].lits : j \in 1..(i - 1)}, st.cls[i].lits)
\* the assert sites of C04
NoDeadRequirement == st.pc = "decide" => \A i \in Open(st) : FirstOpenCand(st, i) # 0
TrailConsistent == \A i, j \in DOMAIN st.tr : (i < j => st.tr[i].lvl <= st.tr[j].lvl) /\ (st.tr[i].v = st.tr[j].v => i = j)
Termination == <>(Done /\ sk = Len(Cases[ci].ps))
=============================================================================
