SPECIFICATION Spec
CONSTANT OracleBound = 2000000000
POSTCONDITION Accepted
CHECK_DEADLOCK FALSE
