#!/usr/bin/env python3
"""./check <Cxx> [--tier quick|thorough] [--replay <path>]

Exit 0: the property held on everything explored (KNOWN-FINDING lines may be
printed).  Exit 1 + `VIOLATION property=<id> replay=<path>`: a rule owned by the
property was broken.  Exit 2: tool trouble (build failure, TLC error)."""
import json
import os
import re
import sys
import time

sys.path.insert(0, os.path.dirname(os.path.abspath(__file__)))
import vlib
from vlib import log

# ---------------------------------------------------------------------------
# plans: (plan, n_quick, n_thorough, variants, whitebox)
# ---------------------------------------------------------------------------
TRACE_PLANS = {
    "C01": [("solve:base,locks,excl,unknown,cyclic", 160, 2500, "hints,async", True),
            ("solve:soft,softhints", 150, 2500, "", True),
            ("solve:hints", 150, 2500, "asynchints", True),
            ("solve:hintcons", 1500, 9000, "", True),
            ("solve:selfreq", 300, 4000, "", True),
            ("solve:large", 40, 800, "", True)],
    "C02": [("solve:midconflict", 220, 4000, "perm,renum,act,hints", True),
            ("solve:conflict", 150, 3000, "act", True),
            ("solve:base,locks,excl,direct,unionempty", 100, 2000, "perm,renum,hints,async", True),
            ("solve:hintcons", 600, 9000, "", True),
            ("solve:selfreq", 300, 4000, "", True),
            ("solve:large", 40, 800, "", True)],
    "C03": [("solve:midconflict,conflict", 260, 4000, "hints", True),
            ("solve:cyclic,locks,excl,unknown,unionempty", 150, 2500, "hints", True),
            ("solve:bigconflict", 60, 12000, "", True),
            ("solve:selfcons,selfreq", 240, 4000, "", True),
            # inputs harvested for a rare premise: a learnt clause that is the reason of an
            # assignment on the final trail AND an ancestor of another such reason (the
            # unsolvable-analysis meets it twice): 1 - 3 % of conflict-rich random problems
            ("corpus:c03_shared", 400, 400, "", True),
            # the report is built while the provider (only now) asks to cancel
            ("cancelrender:unionoverlap,unionempty,midconflict", 40, 800, "", False)],
    "C04": [("solve:hintexcl,selfcons,softlone", 250, 6000, "", False),
            ("solve:cyclic,excl,locks,unknown,soft,softhints", 120, 4000, "hints", False),
            ("solve:midconflict,base", 120, 4000, "asynchints", False),
            ("solve:softconflict", 300, 6000, "", False),
            ("synth:cyclic,midconflict,base,excl,locks,unknown", 120, 2500, "", False),
            # a cancellation request that arrives only after solve has returned, while the
            # conflict is rendered
            ("cancelrender:unionoverlap,unionempty,midconflict", 40, 800, "", False),
            # a solve cancelled with requests in flight, then the same solver again: it must return
            ("cancel:small,hints", 3, 20, "async", False)],
    "C05": [("solve:midconflict,conflict,direct", 250, 4000, "", True),
            ("solve:base,cyclic", 200, 3000, "hints", True),
            ("solve:selfreq,hintcons", 400, 5000, "", True),
            ("solve:softconflict,softeager", 200, 3000, "", True)],
    "C07": [("solve:clean", 500, 8000, "hints,async,perm", True),
            ("solve:unionoverlap", 200, 3000, "hints,async", True),
            ("solve:manycands", 60, 1200, "hints", True),
            ("solve:unionempty", 200, 3000, "hints", True)],
    "C08": [("solve:direct", 300, 6000, "act,hints", True),
            ("solve:direct2", 300, 6000, "act", True),
            ("template:direct", 300, 6000, "", True)],
    "C09": [("solve:clean,base,unknown", 300, 5000, "", False),
            ("history:base,clean,unknown", 200, 3000, "", False),
            ("cancel:small,hints", 4, 40, "async", False)],
    "C10": [("solve:small,base,hints,unknown", 60, 1500, "async,asynchints", False),
            ("solve:midconflict,fan", 40, 800, "async", False),
            ("history:base,hints", 40, 800, "async", False),
            # a cancelled solve with requests in flight, then the next solve on the same solver
            ("cancel:small,hints", 3, 30, "async", False)],
    "C11": [("solve:fan,base,clean", 90, 2000, "async,asynchints", False)],
    "C12": [("cancel:small,base,hints,soft", 7, 80, "async", False),
            ("cancel:midconflict", 3, 30, "async", False)],
    "C13": [("history:base,hints,soft,excl,midconflict,unknown", 54, 1200, "async", True),
            ("cancel:small,hints,fan", 4, 50, "async", False)],
    "C15": [("wide:1,2,3,4,5,6,7,8,9", 1, 1, "", False),
            ("wide:15,16,17,31,32,33,40", 1, 1, "", False),
            ("widechain:2,3,4,5,6,7,8,9,12,16,17,24,32,33,40", 1, 1, "", True),
            ("widealt:3,4,5,6,7,8,9,10,12,16,17,20,32,33,40", 1, 1, "", True),
            ("solve:hintcons", 800, 6000, "", True),
            ("solve:unionempty", 400, 5000, "", True)],
    "C14": [("solve:softconflict", 300, 5000, "", True),
            ("solve:soft", 500, 8000, "", True),
            ("solve:softhints", 250, 4000, "", True),
            ("solve:softeager", 800, 6000, "", True)],
}

# design-level model checking of LazyCdcl per property: (plan, n quick, n thorough, liveness)
MC_PLANS = {
    "C01": ("solve:base,locks,excl,unknown,soft,hints", 40, 400, False),
    "C02": ("solve:base,midconflict", 25, 120, False),
    "C03": ("solve:base,midconflict,cyclic", 20, 100, False),
    "C04": ("solve:base,hintexcl,selfcons,softlone,cyclic", 40, 300, True),
    "C05": ("solve:base,cyclic,locks", 40, 300, False),
    "C07": ("solve:clean", 120, 1200, False),
    "C08": ("solve:direct", 12, 60, False),
    "C13": ("history:base,hints,soft,excl", 40, 400, True, True),
    "C14": ("solve:soft,softhints,softconflict", 50, 500, False),
}

# implementation -> spec for the solver core: real executions re-run through LazyCdclW with
# the recorded decisions (Trace_CdclW.tla): (plan, n quick, n thorough)
SX_PLANS = {
    "C01": ("solve:base,locks,excl,unknown,hints,hintcons,selfreq,large", 40, 600),
    "C02": ("solve:midconflict,conflict,bigconflict,hintcons,selfreq,large", 60, 1000),
    "C03": ("solve:bigconflict,conflict,midconflict,cyclic", 80, 2000),
    "C05": ("solve:midconflict,conflict,direct,base,cyclic,selfreq", 50, 800),
    "C07": ("solve:clean,unionoverlap,manycands", 60, 800),
    "C08": ("solve:direct,direct2", 100, 1500),
    "C13": ("history:base,hints,soft,excl,midconflict,unknown", 30, 600),
    "C14": ("solve:soft,softhints,softconflict,softeager,softlone", 80, 1200),
    "C15": ("solve:hintcons,manycands", 60, 800),
}

# rules that also count against a property although they carry another prefix
ALSO = {
    "C10": ["C04_Panic", "C04_Timeout", "C04_Crash", "C09_DupDeps", "C09_DupCands", "C02_VerdictDiffers",
            "C02_UnsatButSatisfiable", "C01_V_RootReq", "C01_V_RootCons", "C01_V_Known", "C01_V_Req", "C01_V_Cons",
            "C01_V_Excluded", "C01_V_Locked", "C01_V_OnePerName", "C01_DupInSolution", "C01_NotASolvable"],
    "C12": ["C04_Panic", "C04_Timeout", "C04_Crash"],
    # waiting for ever is not returning
    "C04": ["C10_Deadlock"],
    "C13": ["C04_Panic", "C04_Timeout", "C04_Crash", "C09_DupDeps", "C09_DupCands", "C10_Deadlock",
            "C02_UnsatButSatisfiable", "C01_V_RootReq", "C01_V_RootCons", "C01_V_Known", "C01_V_Req", "C01_V_Cons",
            "C01_V_Excluded", "C01_V_Locked", "C01_V_OnePerName", "C01_DupInSolution", "C01_NotASolvable", "C01_DbNotSatisfied"],
    # a verdict is only as good as the clause database: a clause the rules demand that is
    # missing (requirement, constrains pair, lock, exclusion, at-most-one pair) lets the
    # solver decide a weaker problem
    "C02": ["C04_Panic", "C04_Timeout", "C04_Crash", "C01_EncodingIncomplete", "C15_PairNotExcluded"],
    # the at-most-one part of C01 at the level of the encoding
    "C01": ["C15_PairNotExcluded"],
    # an implied assignment whose reason is not unit survives the undo of what justified it:
    # the operational form of "dependencies of abandoned candidates are not installed"
    # ... and a learnt clause that does not follow from the database keeps forcing what an
    # abandoned branch (or a rejected soft requirement) needed
    "C05": ["C02_ReasonIsUnit", "C02_ReasonLogged", "C02_LearntRUP", "C03_LearntFromWhy", "C04_Panic", "C04_Timeout",
            "C04_Crash"],
    "C06": ["C02_VerdictDiffers"],
    "C15": ["C02_UnsatButSatisfiable", "C01_V_OnePerName", "C01_V_RootReq", "C01_V_Req", "C01_DupInSolution", "C01_NotASolvable",
            "C01_DbNotSatisfied", "C04_Panic", "C04_Timeout", "C04_Crash"],
    "C14": ["C04_Panic", "C04_Timeout", "C04_Crash", "C02_UnsatButSatisfiable", "C15_PairNotExcluded", "C01_EncodingIncomplete", "C01_V_RootReq", "C01_V_RootCons", "C01_V_Known", "C01_V_Req",
            "C01_V_Cons", "C01_V_Excluded", "C01_V_Locked", "C01_V_OnePerName", "C01_DupInSolution", "C01_NotASolvable",
            "C01_DbNotSatisfied"],
}

# which measured premise makes a run non-trivial for a property: (cover tag, description)
NONTRIVIAL = {
    "C01": ("sat", "the run returned a solution, so the validity rules were evaluated on it"),
    "C03": ("unsat", "the run ended Unsolvable, so a conflict graph was judged"),
    "C05": ("sat", "the run returned a solution"),
    "C07": ("conflictfree", "TLC found the premise ConflictFree to hold for the problem"),
    "C08": ("directbest", "TLC found DirectBestFeasible to hold for the problem"),
    "C09": ("exactcalls", "hint-free, conflict-free, fresh solver: the exact call set was compared"),
    "C10": ("quiescent2", "quiescent points with at least two outstanding provider requests (a real scheduling choice)"),
    "C11": ("quiescent2", "quiescent points with at least two outstanding provider requests"),
    "C12": ("cancelled", "the run was cancelled at the enumerated poll index"),
    "C13": ("reused", "a solve on a solver that had solved before"),
    "C14": ("soft", "the problem has soft requirements"),
    "C02": ("learnt", "the run learnt at least one clause (conflict analysis and a backjump took place)"),
    "C04": ("unsat+synthconflict", "the run built and rendered a conflict (from a solve, or assembled from the facts of the universe)"),
    "C15": ("oracle+sat", "a verdict about candidates of one package was judged (pair: Unsolvable per the oracle; single: solution validated)"),
}


# rules of Trace_Async.tla that state conformance to the AsyncCore model (how many filter /
# sort requests are outstanding when, ...) rather than a property: drift, not violations
DRIFT_RULES = {"C11_PendingMismatch", "C10_CompletedUnknownRequest", "C10_EncodeNotFinished", "C10_ResultDependsOnOrder",
               "C11_ModelNotMaximal"}


def owner(rule):
    return rule.split("_", 1)[0]


def owned_by(prop, rule, profile=""):
    if rule in DRIFT_RULES:
        return False
    if owner(rule) == prop:
        return True
    return rule in ALSO.get(prop, [])


def known_match(known, prop, fail):
    for k in known:
        if k.get("status", "open") != "open":
            continue
        if k["property"] != prop or k["rule"] != fail["rule"]:
            continue
        if "info_re" in k and not re.search(k["info_re"], fail.get("info", "")):
            continue
        return k
    return None


def samples_from(traces, limit=3):
    out = []
    for t in traces[:limit]:
        try:
            with open(t) as f:
                for line in f:
                    if '"ev":"begin"' in line:
                        ev = json.loads(line)
                        out.append({"case": ev["id"], "profile": ev["profile"], "problem": ev["p"],
                                    "packages": len(ev["u"]["pkg"]), "solvables": len(ev["u"]["solv"]),
                                    "mode": ev.get("cfg", {}).get("mode", ""), "seeds": ev.get("seeds", {}),
                                    "universe": ev["u"]})
                        break
        except OSError:
            pass
    return out


def enable_rules(prop):
    vlib.ENABLED_PROPS.clear()
    vlib.ENABLED_PROPS.add(prop)
    for r in ALSO.get(prop, []):
        vlib.ENABLED_PROPS.add(owner(r))
    if os.environ.get("VERIF_ALL_RULES"):
        vlib.ENABLED_PROPS.update(f"C{i:02d}" for i in range(1, 21))


def run_plans_scaled(prop, plans, scale, seed, tag, first_id=40_000_000, jobs=12):
    """Deepening: the solve / template plans of a property once more at `scale` times their
    quick size with another seed; returns the TraceResult (the caller merges it)."""
    exe = vlib.build_harness("release")
    wd2 = vlib.fresh_dir(os.path.join(vlib.WORK, prop + tag))
    files2 = []
    for pi, (plan, nq, nt, variants, wbx) in enumerate(plans):
        if plan.split(":")[0] not in ("solve", "template"):
            continue
        n2 = min(nt, scale * nq)
        allc = os.path.join(wd2, f"plan{pi}.all")
        cnt = vlib.gen_cases(exe, allc, plan, n2, seed, variants, whitebox=wbx, first_id=first_id)
        first_id += cnt
        files2 += vlib.split_file(allc, max(1, min(2 * jobs, cnt // 100 + 1)), wd2, f"plan{pi}")
        os.remove(allc)
    return vlib.run_and_validate(exe, files2, prop + "-deep", jobs=jobs)


def merge_results(res, res2):
    res.fails += res2.fails
    res.cover.update(res2.cover)
    for t, rs in res2.cover_runs.items():
        res.cover_runs[t] |= rs
    res.runs += res2.runs
    res.states += res2.states
    res.transitions += res2.transitions
    res.profiles.update(res2.profiles)
    return res


def trace_check(prop, tier, seed, plans, t0, extra_cov=None, jobs=12, build_profiles=("release",)):
    enable_rules(prop)
    exes = [vlib.build_harness(bp) for bp in build_profiles]
    exe = exes[0]
    wd = vlib.fresh_dir(os.path.join(vlib.WORK, prop))
    case_files = []
    first_id = 1
    total_cases = 0
    for pi, (plan, nq, nt, variants, wbx) in enumerate(plans):
        n = nq if tier == "quick" else nt
        allc = os.path.join(wd, f"plan{pi}.all")
        cnt = vlib.gen_cases(exe, allc, plan, n, seed, variants, whitebox=wbx, first_id=first_id)
        first_id += cnt
        total_cases += cnt
        nsh = max(1, min(jobs, cnt // 40 + 1)) if tier == "quick" else max(1, min(4 * jobs, cnt // 150 + 1))
        case_files += vlib.split_file(allc, nsh, wd, f"plan{pi}")
        os.remove(allc)
    res = vlib.run_and_validate(exe, case_files, prop, jobs=jobs)
    mc_info, mc_viol = {}, []
    if prop in MC_PLANS:
        plan, nq, nt, live = MC_PLANS[prop][:4]
        mc_info, mc_viol = mc_lazycdcl(prop, tier, seed, plan, nq if tier == "quick" else nt, liveness=live,
                                       cancel=len(MC_PLANS[prop]) > 4 and MC_PLANS[prop][4])
    if prop in SX_PLANS:
        plan, nq, nt = SX_PLANS[prop]
        try:
            sx_info, sx_viol = step_exact_replay(prop, tier, seed, plan, nq if tier == "quick" else nt,
                                                 timeout=300 if tier == "quick" else 3000)
        except vlib.ToolError as e:
            # the replay is a conformance measurement: when the model cannot follow the code at
            # all (TLC error, timeout) that is recorded, the property's own rules decide
            log(f"[{prop}] step-exact replay not completed: {str(e)[-400:]}")
            sx_info, sx_viol = {"step_exact_error": str(e)[-400:]}, []
        mc_info.update(sx_info)
        mc_viol = mc_viol + sx_viol
        mc_info["mc_states"] = mc_info.get("mc_states", 0) + sx_info.get("step_exact_states", 0)
        # Conformance drift = the code no longer does what the model computes.  That is not a
        # violation (no property fixes the order of propagation), but it is the moment to look
        # harder: the quick tier then runs the same plans once more at several times the size,
        # with other seeds, and the property's own rules judge those runs too.
        drift = (sx_info.get("step_exact_diverged", 0) + sx_info.get("step_exact_outcome_differs", 0)
                 + res.cover.get("graph_differs_from_model", 0))
        owned_so_far = [f for f in res.fails if owned_by(prop, f["rule"])]
        if tier == "quick" and drift and not owned_so_far and not mc_viol:
            log(f"[{prop}] conformance drift in {drift} replayed runs: deepening the quick run")
            res2 = run_plans_scaled(prop, plans, 6, seed + 7919, "_deep", first_id=first_id, jobs=jobs)
            total_cases += res2.runs
            merge_results(res, res2)
            mc_info["deepened_after_conformance_drift"] = {"drifting_runs": drift, "extra_runs": res2.runs}
    for bp, other in list(zip(build_profiles, exes))[1:]:
        # the same cases again in another build profile (debug assertions on)
        copies = []
        for c in case_files:
            c2 = c[:-6] + "." + bp + ".cases"
            import shutil
            shutil.copyfile(c, c2)
            copies.append(c2)
        r2 = vlib.run_and_validate(other, copies, prop + "-" + bp, jobs=jobs)
        res.fails += r2.fails
        res.cover.update({k + "@" + bp: v for k, v in r2.cover.items()})
        res.runs += r2.runs
        res.states += r2.states
        res.transitions += r2.transitions
        total_cases += 0
    extra_cov = dict(extra_cov or {})
    extra_cov["build_profiles"] = list(build_profiles)
    extra_cov.update(mc_info)
    return finish_trace_check(prop, tier, seed, res, t0, total_cases, extra_cov, extra_violations=mc_viol,
                              extra_states=mc_info.get("mc_states", 0), extra_transitions=mc_info.get("mc_transitions", 0))


def finish_trace_check(prop, tier, seed, res, t0, total_cases, extra_cov=None, extra_violations=None,
                       level="model_checking", extra_states=0, extra_transitions=0):
    known = vlib.load_known()
    fails = vlib.first_fail_per_run(res.fails)
    tool = [f for f in fails if owner(f["rule"]) == "T"]
    if tool:
        for f in tool[:5]:
            log("tool-level rule failure:", f)
        raise vlib.ToolError("trace or input ill-formed: " + tool[0]["rule"])
    mine = [f for f in fails if owned_by(prop, f["rule"])]
    others = [f for f in fails if not owned_by(prop, f["rule"])]
    violations = []
    known_hits = {}
    for f in mine:
        # known findings are filed under the property that owns the rule
        k = known_match(known, owner(f["rule"]), f)
        if k:
            known_hits.setdefault(k["id"], [k, 0])[1] += 1
        else:
            violations.append(f)
    for kid, (k, cnt) in sorted(known_hits.items()):
        print(f"KNOWN-FINDING: property={prop} {k['what']} [{k['id']}; {cnt} occurrence(s) in this run]")
    by_rule = {}
    for f in others:
        by_rule[f["rule"]] = by_rule.get(f["rule"], 0) + 1
    if os.environ.get("VERIF_DEBUG"):
        seen = set()
        for f in others:
            if f["rule"] not in seen:
                seen.add(f["rule"])
                log("  debug replay:", vlib.write_replay("_other", f))
    if by_rule:
        log(f"[{prop}] rule failures owned by other properties (not reported here): {by_rule}")
    nviol = len(violations) + (len(extra_violations) if extra_violations else 0)
    shown = set()
    for f in violations:
        if f["rule"] in shown:
            continue   # one replay per rule on stdout; all are counted in the evidence
        shown.add(f["rule"])
        path = vlib.write_replay(prop, f)
        print(f"VIOLATION property={prop} replay={path}")
        log(f"  rule={f['rule']} case={f['id']} info={f['info'][:300]}")
    for (msg, path) in (extra_violations or []):
        print(f"VIOLATION property={prop} replay={path}")
        log("  " + msg)
    tag = NONTRIVIAL.get(prop)
    # distinct runs that carry (one of) the tag(s) - a tag may be printed several times per run
    if tag:
        runs_with = set()
        for t in tag[0].split("+"):
            runs_with |= res.cover_runs.get(t, set())
        nontrivial = len(runs_with) if runs_with else min(res.runs, sum(res.cover.get(t, 0) for t in tag[0].split("+")))
    else:
        nontrivial = res.runs
    cov = {
        "evaluations": res.runs,
        "distinct_nontrivial": nontrivial,
        "rule": ("cases are generated from seeded profiles (harness/src/gen.rs) and configurations (harness/src/plans.rs); "
                 "every case has a distinct id and distinct (universe, problem, configuration); non-trivial = "
                 + (tag[1] if tag else "every run (each must terminate with a verdict)")),
        "states": res.states + extra_states,
        "transitions": res.transitions + extra_transitions,
        "traces_validated_against_impl": res.runs,
        "samples": samples_from(getattr(res, "traces", [])),
        "cases_generated": total_cases,
        "trace_events": res.transitions,
        "premises_held": dict(res.cover),
        "profiles": dict(res.profiles),
        "rule_failures_owned": len(mine),
        "known_finding_occurrences": {k: v[1] for k, v in known_hits.items()},
        "rule_failures_other_properties": by_rule,
        "rules_of_properties_evaluated": sorted(vlib.ENABLED_PROPS),
        "exhaustive": False,
    }
    if extra_cov:
        cov.update(extra_cov)
    import props as _props
    level = _props.META.get(prop, {}).get("level", level)
    vlib.write_evidence(prop, tier, seed, level, cov, time.time() - t0, nviol,
                        ["the TLA+ rules in spec/Trace_Solve.tla state the property correctly (weakest reading)",
                         "TLC evaluates them faithfully",
                         "the harness provider (harness/src/provider.rs) answers exactly as the universe record says"])
    return 1 if nviol else 0


def replay_file(prop, path):
    """./check Cxx --replay <path>: re-runs the recorded case on the real code as it is now
    (rebuilt from /repo's working tree) and lets TLC judge the new trace with the rules of the
    property.  Exit 1 + VIOLATION line if a rule of the property fails again, 0 if not, 2 if
    the file is not a recorded case (model counterexamples and graph replays are plain
    reports: re-run the check itself for those)."""
    try:
        rec = json.load(open(path))
    except (OSError, ValueError) as e:
        raise vlib.ToolError(f"cannot read {path}: {e}")
    events = rec.get("trace") or []
    begins = [e for e in events if e.get("ev") == "begin"]
    if not begins:
        log(f"{path} is not a recorded solver case (it is a report of another kind); re-run ./check {prop}")
        return 2
    enable_rules(prop)
    b0 = begins[0]
    profile = b0["profile"].split("+")[0]
    case = {"id": b0["id"], "profile": b0["profile"], "u": b0["u"], "ps": [b["p"] for b in begins], "cfg": b0["cfg"]}
    wd = vlib.fresh_dir(os.path.join(vlib.WORK, prop + "_replay"))
    cases = os.path.join(wd, "replay.cases")
    with open(cases, "w") as f:
        f.write(json.dumps(case) + "\n")
    bp = "dbg" if "@dbg" in rec.get("info", "") or rec.get("build_profile") == "dbg" else "release"
    exe = vlib.build_harness(bp)
    res = vlib.run_and_validate(exe, [cases], prop + "-replay", jobs=1)
    mine = [f for f in vlib.first_fail_per_run(res.fails) if owned_by(prop, f["rule"])]
    log(f"[{prop}] replayed case {b0['id']} ({profile}, recorded rule {rec.get('rule')}): "
        f"{[f['rule'] for f in mine] or 'no rule of the property fails now'}")
    for f in mine[:1]:
        p2 = vlib.write_replay(prop, f)
        print(f"VIOLATION property={prop} replay={p2}")
        return 1
    return 0


def main():
    args = sys.argv[1:]
    if not args:
        print(__doc__)
        return 2
    prop = args[0]
    tier = os.environ.get("VERIF_TIER", "quick")
    if "--tier" in args:
        tier = args[args.index("--tier") + 1]
    seed = int(os.environ.get("VERIF_SEED", "1"))
    t0 = time.time()
    if "--replay" in args:
        try:
            return replay_file(prop, args[args.index("--replay") + 1])
        except vlib.ToolError as e:
            log("TOOL ERROR:", e)
            return 2
    try:
        import props
        fn = props.CHECKS.get(prop)
        if fn is None:
            print(f"no check registered for {prop}", file=sys.stderr)
            return 2
        return fn(prop, tier, seed, t0)
    except vlib.ToolError as e:
        log("TOOL ERROR:", e)
        return 2


if __name__ == "__main__":
    sys.exit(main())


# ---------------------------------------------------------------------------
# spec -> implementation: replay of TLC's complete state graph
# ---------------------------------------------------------------------------
def graph_replay(prop, tag, module, cfg, model, extra_args, workers=4, timeout=1800):
    """Runs TLC on a MC_* module that prints INIT/EDGE lines, then replays every
    transition on the real object.  Returns a dict with counts and mismatches."""
    exe = vlib.build_harness("release")
    wd = os.path.join(vlib.WORK, prop)
    os.makedirs(wd, exist_ok=True)
    out, st = vlib.tlc(module, cfg, os.path.join(vlib.WORK, f"md_{prop}_{tag}"), workers=workers, timeout=timeout,
                       java_opts="-Xss256m -Xmx6g -XX:+UseParallelGC")
    if "Error:" in out or "No error has been found" not in out:
        # an invariant of the model itself failed, or TLC broke
        tail = "\n".join(l for l in out.splitlines() if not l.startswith('"'))[-3000:]
        if "Invariant" in out and "is violated" in out:
            return {"model_violation": tail, "states": st["distinct"], "transitions": st["states"]}
        raise vlib.ToolError(f"TLC failed on {module}/{cfg}:\n{tail}")
    gpath = os.path.join(wd, f"{tag}.graph")
    with open(gpath, "w") as f:
        f.write("\n".join(l for l in out.splitlines() if l.startswith('"EDGE|') or l.startswith('"INIT|')) + "\n")
    rpath = os.path.join(wd, f"{tag}.replay.json")
    import subprocess
    r = subprocess.run([exe, "replay", "--model", model, "--graph", gpath, "--out", rpath, "--quiet"] + extra_args,
                       capture_output=True, text=True)
    if r.returncode != 0:
        raise vlib.ToolError(f"replay driver failed: {r.stderr[-2000:]}")
    rep = json.load(open(rpath))
    rep["tlc_states"] = st["distinct"]
    rep["tlc_transitions"] = st["states"]
    os.remove(gpath)
    return rep


def finish_graph_check(prop, tier, seed, t0, reps, extra_cov=None, assumptions=None):
    nviol = 0
    states = sum(r.get("tlc_states", 0) for r in reps)
    trans = sum(r.get("tlc_transitions", 0) for r in reps)
    edges = sum(r.get("edges", 0) for r in reps)
    samples = []
    for r in reps:
        samples += r.get("samples", [])[:2]
        if r.get("model_violation"):
            raise vlib.ToolError("the model violates its own invariant:\n" + r["model_violation"])
        if r.get("mismatches", 0):
            nviol += r["mismatches"]
            d = os.path.join(vlib.REPLAYS, prop)
            os.makedirs(d, exist_ok=True)
            path = os.path.join(d, f"{r['model']}_mismatch.json")
            json.dump({"property": prop, "model": r["model"], "mismatches": r["mismatches"], "first": r["first"]},
                      open(path, "w"))
            print(f"VIOLATION property={prop} replay={path}")
            log(f"  {r['mismatches']} transitions of the {r['model']} model are not reproduced by the code; first: "
                + json.dumps(r["first"][:1])[:600])
    cov = {"states": states, "transitions": trans, "traces_validated_against_impl": edges,
           "samples": samples or [{"note": "no sample"}],
           "evaluations": edges, "distinct_nontrivial": edges,
           "rule": "every transition of the model's complete state graph (TLC, bounded constants) is one test: a shortest "
                   "operation path from the initial state plus the transition, executed on a fresh real object, comparing the "
                   "full observation after every operation; all transitions are distinct by construction",
           "ops_executed": sum(r.get("ops_executed", 0) for r in reps),
           "exhaustive": True}
    if extra_cov:
        cov.update(extra_cov)
    vlib.write_evidence(prop, tier, seed, "model_checking", cov, time.time() - t0, nviol,
                        assumptions or ["the model's observation function projects the real object's public API faithfully",
                                        "constants bound the alphabet (see cfg files)"])
    return 1 if nviol else 0


# ---------------------------------------------------------------------------
# design-level model checking of the canonical solver model (LazyCdcl.tla)
# ---------------------------------------------------------------------------
MC_INVARIANTS = {
    "C01": ["C01_ValidOnSat"],
    "C02": ["C02_UnsatSound", "C02_NoSoftError", "LearntImplied"],
    "C03": ["C03_SelfContained"],
    "C04": ["NoDeadRequirement", "TrailConsistent"],
    "C05": ["C05_Supported"],
    "C07": ["C07_Preferred"],
    "C08": ["C08_DirectBest"],
    "C13": ["C01_ValidOnSat", "C02_UnsatSound", "C02_NoSoftError", "C05_Supported"],
    "C14": ["C14_SoftObliged", "C02_NoSoftError", "C01_ValidOnSat"],
}


MC_MODULE = {"C03": "MC_LazyCdcl"}      # the abstract (full-propagation) variant stays exercised by one check


def mc_lazycdcl(prop, tier, seed, plan, n, liveness=False, timeout=None, cancel=False):
    module = MC_MODULE.get(prop, "MC_LazyCdclW")
    timeout = timeout or (150 if tier == "quick" else 1500)
    """Model-checks LazyCdcl over the cases of `plan` for every admissible
    decision order, then compares the verdicts the model can reach with the real
    solver's verdict for the same case.  Returns a dict for the evidence and a
    list of (message, replay path) violations."""
    exe = vlib.build_harness("release")
    wd = os.path.join(vlib.WORK, prop)
    os.makedirs(wd, exist_ok=True)
    cases = os.path.join(wd, "mc.cases")
    cnt = vlib.gen_cases(exe, cases, plan, n, seed + 1000, "", whitebox=False, render=False, first_id=900001)
    trace = os.path.join(wd, "mc.trace")
    vlib.run_cases(exe, cases, trace)
    cfg = os.path.join(vlib.SPEC, f"MC_LazyCdcl_{prop}.cfg")
    invs = list(MC_INVARIANTS[prop])
    if module == "MC_LazyCdclW":
        invs += ["WatchesConsistent", "NoClauseFalsified"]
    with open(cfg, "w") as f:
        f.write("SPECIFICATION Spec\nINVARIANTS\n  " + "\n  ".join(invs + ["Report"]) + "\n")
        if liveness:
            f.write("PROPERTY Termination\n")
        if cancel:
            # every solve may end Cancelled at any step; the next solve of the history
            # starts from whatever the cache then holds
            f.write("CONSTANT CancelOn <- CancelTrue\n")
        f.write("CHECK_DEADLOCK FALSE\n")
    try:
        out, st = vlib.tlc(module + ".tla", os.path.basename(cfg), os.path.join(vlib.WORK, f"md_mc_{prop}"),
                           env_extra={"CASES": cases}, workers=8, timeout=timeout,
                           java_opts="-Xss1g -Xmx8g -XX:+UseParallelGC -XX:ParallelGCThreads=4")
    except vlib.ToolError as e:
        if "timeout" not in str(e):
            raise
        # the state space of these cases exceeds the budget of this tier: the design-level
        # check is reported as incomplete (the trace validation above is unaffected)
        log(f"[{prop}] LazyCdcl MC exceeded {timeout}s for {cnt} cases: reported as incomplete")
        return {"mc_cases": cnt, "mc_incomplete": True, "mc_states": 0, "mc_transitions": 0}, []
    finally:
        os.remove(cfg)
    viol = []
    if "No error has been found" not in out:
        tail = "\n".join(l for l in out.splitlines() if not l.startswith('"'))[-2500:]
        m = re.search(r"Invariant (\w+) is violated", out)
        if m or "Temporal properties were violated" in out:
            # the design itself breaks the property: report with TLC's counterexample
            d = os.path.join(vlib.REPLAYS, prop)
            os.makedirs(d, exist_ok=True)
            path = os.path.join(d, "model_counterexample.txt")
            open(path, "w").write(tail)
            viol.append((f"the canonical model violates {m.group(1) if m else 'Termination'}", path))
        else:
            raise vlib.ToolError("TLC failed on MC_LazyCdcl:\n" + tail)
    model = {}
    for kind, f in vlib.parse_reports(out):
        pass
    for line in out.splitlines():
        if line.startswith('"OUTCOME|'):
            f = line.strip().strip('"').split("|")
            model.setdefault(f[1], set()).add((f[2], f[3]))       # key "caseid.solveindex"
    real = {}
    cur = None
    with open(trace) as f:
        for line in f:
            if '"ev":"begin"' in line:
                b = json.loads(line)
                cur = f"{b['id']}.{b['k']}"
            elif '"ev":"result"' in line:
                e = json.loads(line)
                real[cur] = (e["kind"], ",".join(str(x) for x in sorted(e["sol"])))
    verdict_mismatch, member, multi, nomodel, nonmember = [], 0, 0, 0, []
    for cid, (k, sol) in real.items():
        outs = model.get(cid, set())
        if not outs:
            nomodel += 1
            continue
        if k in ("sat", "unsat") and k not in {o[0] for o in outs}:
            verdict_mismatch.append(cid)
        if (k, sol) in outs:
            member += 1
        else:
            nonmember.append({"case": cid, "real": [k, sol], "model": sorted(outs)})
        if len(outs) > 1:
            multi += 1
    for cid in verdict_mismatch[:1]:
        d = os.path.join(vlib.REPLAYS, prop)
        os.makedirs(d, exist_ok=True)
        path = os.path.join(d, f"case{cid}_model_verdict.json")
        json.dump({"property": prop, "case_id": cid, "real": real[cid], "model_outcomes": sorted(model[cid]),
                   "trace": [json.loads(x) for x in vlib.extract_run(trace, int(cid.split(".")[0]))]}, open(path, "w"))
        viol.append((f"real verdict {real[cid][0]} for case {cid} is not reachable in the canonical model", path))
    info = {"mc_cases": cnt, "mc_states": st["distinct"], "mc_transitions": st["states"],
            "mc_model": module[3:] + ".tla",
            "mc_invariants": invs + (["Termination (liveness, weak fairness)"] if liveness else []),
            "mc_cancellation_explored": bool(cancel),
            "mc_real_outcome_in_model_set": member, "mc_cases_with_several_model_outcomes": multi,
            "mc_cases_without_model_outcome": nomodel, "mc_real_outcome_not_in_model_set": nonmember[:5],
            "mc_verdict_mismatches": len(verdict_mismatch)}
    log(f"[{prop}] LazyCdcl MC: {cnt} cases, {st['distinct']} states, real outcome in model set {member}/{len(real) - nomodel}, "
        f"verdict mismatches {len(verdict_mismatch)}")
    return info, viol


# ---------------------------------------------------------------------------
# implementation -> spec for the solver core: recorded executions re-run through
# LazyCdclW with the real decisions (Trace_CdclW.tla)
# ---------------------------------------------------------------------------
def step_exact_replay(prop, tier, seed, plan, n, timeout=600):
    """Runs the real solver (hooks on) over `n` generated single-solve cases of `plan`,
    extracts the decision sequence of every run, lets TLC drive LazyCdclW with it and
    compares what the model computes with what the code returned.  A divergence is a
    CONFORMANCE finding about the model (it is logged and counted in the evidence), not a
    violation of a property: only the invariants TLC evaluates along the replay are."""
    exe = vlib.build_harness("release")
    wd = os.path.join(vlib.WORK, prop)
    os.makedirs(wd, exist_ok=True)
    allc = os.path.join(wd, "sx.all")
    vlib.gen_cases(exe, allc, plan, n, seed + 4242, "", whitebox=True, render=False, first_id=800001)
    trace = os.path.join(wd, "sx.trace")
    vlib.run_cases(exe, allc, trace)
    # per case and solve: decisions (as solvables) and the result
    runs, cur, var2solv = {}, None, {}
    with open(trace) as f:
        for line in f:
            if '"ev":"begin"' in line:
                b = json.loads(line)
                cur = (b["id"], b["k"])
                var2solv = {}
                runs[cur] = {"dec": [], "kind": "", "sol": []}
            elif cur is None:
                continue
            elif '"ev":"var"' in line:
                e = json.loads(line)
                if e["solv"]:
                    var2solv[e["v"]] = e["solv"]
            elif '"ev":"assign"' in line and '"tag":"decide"' in line:
                e = json.loads(line)
                runs[cur]["dec"].append(var2solv.get(e["v"], -1))
            elif '"ev":"unsatids"' in line:
                runs[cur]["ids"] = sorted(json.loads(line)["ids"])
            elif '"ev":"result"' in line:
                e = json.loads(line)
                runs[cur]["kind"] = e["kind"]
                runs[cur]["sol"] = sorted(e["sol"])
    cases_f, runs_f = os.path.join(wd, "sx.cases"), os.path.join(wd, "sx.runs")
    kept = 0
    with open(allc) as fin, open(cases_f, "w") as fc, open(runs_f, "w") as fr:
        for line in fin:
            c = json.loads(line)
            solves = [runs.get((c["id"], k + 1)) for k in range(len(c.get("ps", [])))]
            # histories with a solve that was cancelled / panicked are left to the other rules
            if not solves or any(r is None or r["kind"] not in ("sat", "unsat") for r in solves):
                continue
            fc.write(line)
            fr.write(json.dumps({"id": c["id"], "solves": [{"dec": r["dec"], "kind": r["kind"], "sol": r["sol"]} for r in solves]}) + "\n")
            kept += len(solves)
    if kept == 0:
        return {"step_exact_cases": 0}, []
    out, st = vlib.tlc("Trace_CdclW.tla", "Trace_CdclW.cfg", os.path.join(vlib.WORK, f"md_sx_{prop}"),
                       env_extra={"CASES": cases_f, "RUNS": runs_f}, workers=8, timeout=timeout,
                       java_opts="-Xss1g -Xmx8g -XX:+UseParallelGC -XX:ParallelGCThreads=4")
    viol = []
    if "No error has been found" not in out:
        tail = "\n".join(l for l in out.splitlines() if not l.startswith('"'))[-2500:]
        m = re.search(r"Invariant (\w+) is violated", out)
        if m:
            d = os.path.join(vlib.REPLAYS, prop)
            os.makedirs(d, exist_ok=True)
            path = os.path.join(d, "replay_through_model_counterexample.txt")
            open(path, "w").write(tail)
            viol.append((f"along a real execution replayed through LazyCdclW the model violates {m.group(1)}", path))
        else:
            raise vlib.ToolError("TLC failed on Trace_CdclW:\n" + tail)
    rep, div = {}, {}
    for line in out.splitlines():
        if line.startswith('"REPLAYED|'):
            f = line.strip().strip('"').split("|")
            ck = tuple(int(x) for x in f[1].split("."))
            rep[ck] = (f[2], f[3], int(f[4]), int(f[5]), int(f[6]), f[7] if len(f) > 7 else "")
        elif line.startswith('"DIVERGE|'):
            f = line.strip().strip('"').split("|")
            div[tuple(int(x) for x in f[1].split("."))] = {"at_decision": int(f[2]), "real": f[3], "model_offers": f[4]}
    exact, differ = 0, []
    learnt_total = 0
    ids_compared = 0
    for cid, r in runs.items():
        if cid not in rep:
            continue
        k, sol, nl, nr, nd, ids = rep[cid]
        learnt_total += nl
        same_ids = k != "unsat" or "ids" not in r or ids == ",".join(str(x) for x in r["ids"])
        if k == "unsat" and "ids" in r:
            ids_compared += 1
        if k == r["kind"] and (k != "sat" or sol == ",".join(str(x) for x in r["sol"])) and nd == len(r["dec"]) and same_ids:
            exact += 1
        elif cid not in div:
            differ.append({"case": list(cid), "real": [r["kind"], r["sol"], len(r["dec"]), r.get("ids")], "model": [k, sol, nd, ids]})
    info = {"step_exact_cases": kept, "step_exact_reproduced": exact, "step_exact_diverged": len(div),
            "step_exact_outcome_differs": len(differ), "step_exact_examples": ([{"case": list(k), **v} for k, v in list(div.items())[:3]] + differ[:3]),
            "step_exact_states": st["distinct"], "step_exact_learnt_clauses_in_model": learnt_total,
            "step_exact_plan": plan,
            "step_exact_reported_clause_sets_compared": ids_compared}
    log(f"[{prop}] step-exact replay through LazyCdclW: {kept} runs, {exact} reproduced exactly, "
        f"{len(div)} diverged, {len(differ)} ended differently, {learnt_total} learnt clauses, {st['distinct']} states")
    return info, viol
