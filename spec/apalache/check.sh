#!/bin/sh
# usage: check.sh <Module>    (MappingInd | CowRefInd)
# Shows with Apalache that IndInv is an inductive invariant of the module:
#   Init => IndInv   and   IndInv /\ Next => IndInv'
# Prints "INDUCTIVE <Module>" and exits 0 when both hold, "NOT-INDUCTIVE ..." and exits 1 when
# Apalache finds a counterexample, exits 2 on tool trouble.
cd "$(dirname "$0")" || exit 2
M=$1
OUT=$(mktemp -d)
trap 'rm -rf "$OUT" tmp' EXIT
run() {
  timeout "${APALACHE_TIMEOUT:-1500}" apalache-mc check --cinit=ConstInit --init=$1 --inv=IndInv --length=$2 --out-dir="$OUT" "$M.tla" > "$OUT/log.$2" 2>&1
  if grep -q "The outcome is: NoError" "$OUT/log.$2"; then return 0; fi
  if grep -q "The outcome is: Error" "$OUT/log.$2"; then
    echo "NOT-INDUCTIVE $M ($1, length $2)"; grep -l "" "$OUT"/*/*/violation*.tla 2>/dev/null | head -1 | xargs -r sed -n 1,60p; exit 1
  fi
  tail -5 "$OUT/log.$2"; exit 2
}
run Init 0
run IndInit 1
echo "INDUCTIVE $M"
