----------------------------- MODULE AsyncFetch -----------------------------
(***************************************************************************)
(* Layer B: the protocol between Encoder (src/solver/encoding.rs),         *)
(* SolverCache (src/solver/cache.rs) and an asynchronous provider, for one *)
(* `encode` of a set of solvables whose assignment does not change (the    *)
(* first encode of a solve: only the root is assigned).                    *)
(*                                                                         *)
(* The encoder keeps a set of tasks (futures in FuturesUnordered):         *)
(*   deps x   wait for the dependency record of x, then spawn pkg / req /  *)
(*            con tasks for what it mentions                (queue_solvable) *)
(*   pkg n    wait for the candidates of package n          (queue_package) *)
(*   req x r  one sub-future per version set of r: candidates of its       *)
(*            package, then ITS OWN filter_candidates request, then ITS    *)
(*            OWN sort_candidates request; when all are done, candidates   *)
(*            whose dependencies are cheaply available are queued eagerly  *)
(*   con x v  candidates of the package, then its own inverse filter       *)
(* get_candidates requests are shared through the in-flight table (one per *)
(* package however many tasks wait for it); get_dependencies is requested  *)
(* once per solvable (clauses_added_for_solvable); filter / sort requests  *)
(* are per task.                                                           *)
(*                                                                         *)
(* All tasks run on the solver's thread until each is blocked on a         *)
(* provider request, so the model takes one step per completed request:    *)
(* Complete(r) followed by RunToQuiescence.  States are exactly the        *)
(* quiescent points the gate runtime observes.                             *)
(***************************************************************************)
EXTENDS Universe, CaseFile

VARIABLES ci,      \* the case (universe + problem)
          s        \* protocol state
vars == <<ci, s>>

CONSTANTS CleanupOnDrop,     \* see AsyncCore
          WithCancel         \* explore cancellation and a second solve on the same solver

Core == INSTANCE AsyncCore WITH u <- Cases[ci].u, p <- Cases[ci].ps[1]

Init == ci \in DOMAIN Cases /\ s = Core!RTQ(Core!S0)
CompleteOne == \E r \in s.reqs : s' = Core!RTQ(Core!Complete(s, r)) /\ UNCHANGED ci
\* the provider starts signalling cancellation (at most once, first solve only)
FireCancel == /\ WithCancel /\ ~s.cancel /\ s.solves = 1 /\ s.tasks # {}
              /\ s' = [s EXCEPT !.cancel = TRUE] /\ UNCHANGED ci
\* solve() returned (finished or cancelled): the same solver is used again
SolveAgain == /\ WithCancel /\ s.solves = 1 /\ s.tasks = {} /\ s.reqs = {}
              /\ s' = Core!RTQ(Core!NextSolveState(s)) /\ UNCHANGED ci
Next == CompleteOne \/ FireCancel \/ SolveAgain
Spec == Init /\ [][Next]_vars /\ WF_vars(CompleteOne)

\* properties for every completion order (definitions in AsyncCore)
NoDeadlock == Core!NoDeadlock(s)
NoDuplicateCall == Core!NoDuplicateCall(s)
MaxIssued == Core!MaxIssued(s)
Causal == Core!Causal(s)
ResultIndependent == s.solves = 1 => Core!ResultIndependent(s)
\* C12: no get_candidates / get_dependencies request is started once cancellation was observed
\* (by construction of Ensure); C13: the second solve never waits on a stale marker
SecondSolveTerminates == <>(s.solves = 2 /\ Core!Finished(s)) \/ <>[](s.solves = 1)
EncodeTerminates == <>Core!Finished(s)
=============================================================================
