//! C17: re-encodes cases as a whitespace-separated integer stream for the C++
//! driver (no JSON parser needed on that side).  Only what the C++ provider
//! interface can express is exported: dependencies are always known, hints are
//! explicit lists, every package answers get_candidates.
//!
//! CASE id npkg nsolv nvs
//!  per package: exists ncands c.. nrank r.. favored locked nexcl e.. nhint h..
//!  per solvable: name nreqs (len v..).. ncons c..
//!  per version set: name nmatch m..
//!  problem: nreqs (len v..).. ncons c.. nsoft s..

use std::io::Write;

use crate::model::*;
use crate::{get_arg, read_cases};

fn list(out: &mut String, v: &[u32]) {
    out.push_str(&format!(" {}", v.len()));
    for x in v {
        out.push_str(&format!(" {x}"));
    }
}

/// makes a universe expressible through the C++ interface
pub fn cpp_expressible(u: &Universe) -> Universe {
    let mut v = u.clone();
    for s in v.solv.iter_mut() {
        s.known = true;
    }
    for p in v.pkg.iter_mut() {
        let l = match p.hint.mode.as_str() {
            "all" => p.cands.clone(),
            "some" => p.hint.list.clone(),
            _ => vec![],
        };
        p.hint = Hint { mode: "some".into(), list: l };
    }
    v.idmap = IdMap::default();
    v
}

pub fn export_cmd(args: &[String]) {
    let cases = read_cases(&get_arg(args, "--cases").unwrap());
    let out_path = get_arg(args, "--out").unwrap();
    let mut f = std::io::BufWriter::new(std::fs::File::create(out_path).unwrap());
    for c in &cases {
        let u = &c.u;
        let mut s = format!("CASE {} {} {} {}", c.id, u.pkg.len(), u.solv.len(), u.vs.len());
        for p in &u.pkg {
            s.push_str(&format!(" {}", p.exists as u32));
            list(&mut s, &p.cands);
            list(&mut s, &p.rank);
            s.push_str(&format!(" {} {}", p.favored, p.locked));
            list(&mut s, &p.excluded);
            list(&mut s, &p.hint.list);
        }
        for sv in &u.solv {
            s.push_str(&format!(" {} {}", sv.name, sv.reqs.len()));
            for r in &sv.reqs {
                list(&mut s, r);
            }
            list(&mut s, &sv.cons);
        }
        for v in &u.vs {
            s.push_str(&format!(" {}", v.name));
            list(&mut s, &v.matching);
        }
        let p = &c.ps[0];
        s.push_str(&format!(" {}", p.reqs.len()));
        for r in &p.reqs {
            list(&mut s, r);
        }
        list(&mut s, &p.cons);
        list(&mut s, &p.soft);
        writeln!(f, "{s}").unwrap();
    }
    f.flush().unwrap();
}
