---------------------------- MODULE MC_AtMostOne ----------------------------
EXTENDS AtMostOne, TLC, Json, SequencesExt
Key == ToJson(<<n, helpers>>)
KeyP == ToJson(<<n', helpers'>>)
\* clause set as a sorted sequence of [i, b, p] for comparison with the real tracker
ClsSeq(S) == LET q == SetToSortSeq(S, LAMBDA x, y : x[1] < y[1] \/ (x[1] = y[1] /\ x[2] < y[2]))
             IN [k \in DOMAIN q |-> <<q[k][1], q[k][2], IF q[k][3] THEN 1 ELSE 0>>]
MCInit == Init /\ PrintT("INIT|" \o Key \o "|" \o ToJson([n |-> 0, helpers |-> 0, cls |-> <<>>]))
MCNext == \/ Add /\ PrintT("EDGE|" \o Key \o "|" \o ToJson([op |-> "add"]) \o "|" \o KeyP \o "|"
                          \o ToJson([n |-> n', helpers |-> helpers', cls |-> ClsSeq(cls')]))
          \/ ReAdd /\ PrintT("EDGE|" \o Key \o "|" \o ToJson([op |-> "readd"]) \o "|" \o KeyP \o "|"
                            \o ToJson([n |-> n', helpers |-> helpers', cls |-> ClsSeq(cls')]))
MCSpec == MCInit /\ [][MCNext]_vars

\* the quadratic invariants are evaluated for every n up to 40 and around every power
\* of two beyond (where a helper variable is added)
CheckHere == n <= 40 \/ \E k \in 6..10 : n \in (2 ^ k - 2)..(2 ^ k + 3) \/ n = MaxN
ExclAt == CheckHere => Excl
ConsAt == CheckHere => Cons
CompleteAt == CheckHere => Complete
=============================================================================
