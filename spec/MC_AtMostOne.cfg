SPECIFICATION MCSpec
CONSTANT MaxN = 270
INVARIANTS ExclAt ConsAt CompleteAt Minimal
CHECK_DEADLOCK FALSE
