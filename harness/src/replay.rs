//! spec -> implementation replay drivers (filled in per component).
pub fn replay_cmd(_args: &[String]) {
    unimplemented!("replay")
}
