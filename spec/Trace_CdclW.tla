---------------------------- MODULE Trace_CdclW ----------------------------
(***************************************************************************)
(* Layer C for the solver core: every recorded execution of the real       *)
(* Solver::solve is re-run through LazyCdclW (the watch-faithful model),   *)
(* re-using the model's own actions.  The only nondeterminism of the model *)
(* is the choice in Decide; here it is resolved by the decisions the real  *)
(* solver took (hook events `assign` with tag `decide`, mapped back to     *)
(* solvables).  Everything else - which clauses an encode adds, what       *)
(* propagation derives through the watches, which clause is learnt, how far *)
(* the solver jumps back, when it restarts, what it finally returns - is   *)
(* computed by the model and compared with the code:                       *)
(*   - a real decision the model does not offer at that point  -> DIVERGE  *)
(*   - at the end: verdict, solution, number of learnt clauses, number of  *)
(*     restarts and of decisions                                -> REPLAYED *)
(* TLC evaluates the model's invariants (validity, soundness, supported-   *)
(* ness, watch consistency, no falsified clause ...) in every state of the *)
(* replay, i.e. along the executions the code really took, on universes    *)
(* far beyond what exhaustive exploration of all decision orders reaches.  *)
(*                                                                         *)
(* Runs[i] belongs to Cases[i]; a case may be a history of several solves   *)
(* on ONE solver (the cache - hint bits, fetched dependency records - is    *)
(* kept, LazyCdclW!SolveAgain):                                             *)
(*   [id, solves : Seq([dec : Seq(solvable), kind, sol : Seq(solvable)])]  *)
(***************************************************************************)
EXTENDS LazyCdclW, TLC

Runs == ndJsonDeserialize(IOEnv.RUNS)

VARIABLE dk            \* index of the next recorded decision
tvars == <<ci, sk, st, dk>>

R == Runs[ci].solves[sk]

TInit == Init /\ dk = 1 /\ Runs[ci].id = Cases[ci].id

RECURSIVE JoinI(_)
JoinI(s) == IF s = <<>> THEN "" ELSE ToString(Head(s)) \o (IF Len(s) > 1 THEN "," ELSE "") \o JoinI(Tail(s))
SetToSeq(S) == LET RECURSIVE F(_) F(T) == IF T = {} THEN <<>> ELSE LET m == CHOOSE x \in T : \A y \in T : x <= y IN <<m>> \o F(T \ {m}) IN F(S)

\* the clauses for which the model would decide exactly what the code decided
Matching == IF dk > Len(R.dec) THEN {}
            ELSE {i \in Choices(st) : FirstOpenCand(st, i) = R.dec[dk]}

TDecide ==
  /\ st.pc = "decide"
  /\ IF Open(st) = {} THEN st' = [st EXCEPT !.pc = "check"] /\ UNCHANGED dk
     ELSE IF Matching # {}
     THEN LET i == CHOOSE i \in Matching : \A j \in Matching : i <= j
              c == R.dec[dk]
          IN /\ st' = [Push(st, c, TRUE, st.lvl + 1, i) EXCEPT !.lvl = st.lvl + 1, !.pc = "proplearn"]
             /\ dk' = dk + 1
     ELSE \* the code decided something the model does not offer here (or stopped deciding)
          /\ PrintT("DIVERGE|" \o ToString(Cases[ci].id) \o "." \o ToString(sk) \o "|" \o ToString(dk) \o "|"
                    \o (IF dk > Len(R.dec) THEN "none" ELSE ToString(R.dec[dk])) \o "|"
                    \o JoinI(SetToSeq({FirstOpenCand(st, i) : i \in Choices(st)})))
          /\ st' = [st EXCEPT !.pc = "done", !.outcome = [kind |-> "diverged"]]
          /\ UNCHANGED dk

TNext == \/ /\ \/ (Install \/ PropTop \/ PropLearn \/ Check \/ NextSoft) /\ UNCHANGED dk
               \/ TDecide
            /\ UNCHANGED <<ci, sk>>
         \* the next solve of the history on the same solver (not after a divergence)
         \/ st.outcome.kind # "diverged" /\ SolveAgain /\ dk' = 1

TSpec == TInit /\ [][TNext]_tvars

\* one line per finished replay; the driver compares it with what the code returned
TReport == Done => PrintT("REPLAYED|" \o ToString(Cases[ci].id) \o "." \o ToString(sk) \o "|" \o st.outcome.kind \o "|"
                          \o (IF st.outcome.kind = "sat" THEN JoinI(SetToSeq(st.outcome.sol)) ELSE "")
                          \o "|" \o ToString(st.nlearnt) \o "|" \o ToString(st.nrestart) \o "|" \o ToString(dk - 1)
                          \o "|" \o (IF st.outcome.kind = "unsat" THEN JoinI(SetToSeq(st.outcome.ids)) ELSE ""))

\* the model's own properties, evaluated along the real executions
TOnReplay == st.outcome.kind # "diverged"
T_C01_ValidOnSat == TOnReplay => C01_ValidOnSat
T_C02_UnsatSound == TOnReplay => C02_UnsatSound
T_C05_Supported == TOnReplay => C05_Supported
T_NoClauseFalsified == TOnReplay => NoClauseFalsified
=============================================================================
