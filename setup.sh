#!/bin/sh
# Builds the framework from files on disk only (offline).
cd "$(dirname "$0")" || exit 2
export CARGO_NET_OFFLINE=true
LOG=$(mktemp)
(cd harness && cargo build --offline --release --quiet && cargo build --offline --profile dbg --quiet) > "$LOG" 2>&1 || { cat "$LOG"; rm -f "$LOG"; echo "harness build failed"; exit 1; }
./cppdrv/build.sh > "$LOG" 2>&1 || { cat "$LOG"; rm -f "$LOG"; echo "C++ driver build failed"; exit 1; }
cd spec || exit 2
for m in *.tla; do
  java -cp /opt/veriftools/tla/tla2tools.jar:/opt/veriftools/tla/CommunityModules-deps.jar tla2sany.SANY "$m" > "$LOG" 2>&1 || { cat "$LOG"; rm -f "$LOG"; echo "SANY failed on $m"; exit 1; }
done
rm -f "$LOG"
echo setup ok
