SPECIFICATION MCSpec
CONSTANT MaxN = 40
INVARIANTS Excl Cons Complete Minimal
CHECK_DEADLOCK FALSE
