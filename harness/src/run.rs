//! Runs one case against the real solver and records the trace.

use std::{
    cell::{Cell, RefCell},
    future::Future,
    panic::{catch_unwind, AssertUnwindSafe},
    rc::Rc,
    sync::{
        atomic::{AtomicBool, Ordering},
        Arc,
    },
    task::{Context, Poll, Wake, Waker},
};

use resolvo::{
    conflict::{ConflictCause, ConflictEdge, ConflictNode},
    runtime::AsyncRuntime,
    Problem as RProblem, Solver, UnsolvableOrCancelled,
};
use serde_json::{json, Value};

use crate::model::*;
use crate::provider::*;
use crate::rng::Rng;

// ---------------------------------------------------------------------------
// Controllable runtime
// ---------------------------------------------------------------------------

struct FlagWaker(AtomicBool);
impl Wake for FlagWaker {
    fn wake(self: Arc<Self>) {
        self.0.store(true, Ordering::SeqCst);
    }
    fn wake_by_ref(self: &Arc<Self>) {
        self.0.store(true, Ordering::SeqCst);
    }
}

pub enum Sched {
    Fifo,
    Lifo,
    Rand(Rng),
    /// choice indices at successive quiescent points, FIFO afterwards
    Prefix(Vec<u32>, usize),
}

/// payload used to unwind out of a deadlocked block_on
pub struct Deadlock;

#[derive(Clone)]
pub struct GateRuntime {
    pub gates: Rc<Gates>,
    pub rec: Rc<Recorder>,
    pub maps: Rc<IdMaps>,
    pub sched: Rc<RefCell<Sched>>,
    /// number of choices available at each quiescent point (for the explorer)
    pub widths: Rc<RefCell<Vec<u32>>>,
    pub blockons: Rc<Cell<u32>>,
}

impl AsyncRuntime for GateRuntime {
    fn block_on<F: Future>(&self, f: F) -> F::Output {
        let mut f = std::pin::pin!(f);
        let flag = Arc::new(FlagWaker(AtomicBool::new(true)));
        let waker: Waker = flag.clone().into();
        let mut cx = Context::from_waker(&waker);
        let n = self.blockons.get() + 1;
        self.blockons.set(n);
        self.rec.push(&self.maps, json!({"ev":"blockon","n":n}));
        loop {
            if flag.0.swap(false, Ordering::SeqCst) {
                if let Poll::Ready(v) = f.as_mut().poll(&mut cx) {
                    self.rec.push(&self.maps, json!({"ev":"blockdone","n":n}));
                    return v;
                }
                continue;
            }
            // quiescent: nothing is runnable until a provider request completes
            let pending: Vec<GateInfo> = self.gates.pending.borrow().clone();
            let keys: Vec<Value> = pending
                .iter()
                .map(|g| json!([g.kind, g.arg, g.inv]))
                .collect();
            self.rec
                .push(&self.maps, json!({"ev":"quiescent","pending":keys}));
            if pending.is_empty() {
                // the solver waits on something nobody will complete
                std::panic::panic_any(Deadlock);
            }
            self.widths.borrow_mut().push(pending.len() as u32);
            let idx = {
                let mut s = self.sched.borrow_mut();
                match &mut *s {
                    Sched::Fifo => 0,
                    Sched::Lifo => pending.len() - 1,
                    Sched::Rand(r) => r.below(pending.len() as u64) as usize,
                    Sched::Prefix(p, i) => {
                        let c = if *i < p.len() {
                            (p[*i] as usize).min(pending.len() - 1)
                        } else {
                            0
                        };
                        *i += 1;
                        c
                    }
                }
            };
            let g = &pending[idx];
            self.rec.push(
                &self.maps,
                json!({"ev":"complete","kind":g.kind,"arg":g.arg,"inv":g.inv,"idx":idx as u32 + 1}),
            );
            self.gates.open_gate(g.seq);
        }
    }
}

// ---------------------------------------------------------------------------
// Running a case
// ---------------------------------------------------------------------------

pub struct RunOutput {
    pub lines: Vec<Value>,
    /// widths of the quiescent points (async only)
    pub widths: Vec<u32>,
}

fn begin_line(case: &Case, idx: usize, p: &Problem) -> Value {
    json!({
        "ev":"begin","id":case.id,"k":idx as u32 + 1,"fresh": idx == 0,
        "profile": case.profile, "u": case.u, "p": p, "cfg": case.cfg,
    })
}

thread_local! {
    pub static LAST_PANIC: RefCell<Option<(String, String)>> = const { RefCell::new(None) };
}

pub fn install_panic_hook() {
    std::panic::set_hook(Box::new(|info| {
        let loc = info
            .location()
            .map(|l| format!("{}:{}", l.file(), l.line()))
            .unwrap_or_default();
        let msg = if let Some(s) = info.payload().downcast_ref::<&str>() {
            s.to_string()
        } else if let Some(s) = info.payload().downcast_ref::<String>() {
            s.clone()
        } else if info.payload().downcast_ref::<Deadlock>().is_some() {
            "DEADLOCK".to_string()
        } else {
            "?".to_string()
        };
        LAST_PANIC.with(|p| *p.borrow_mut() = Some((loc, msg)));
    }));
}

fn short_loc(loc: &str) -> String {
    // keep path relative to the repository, drop absolute prefixes
    match loc.find("/repo/") {
        Some(i) => loc[i + 6..].to_string(),
        None => match loc.rfind("/src/") {
            Some(i) => loc[i + 1..].to_string(),
            None => loc.to_string(),
        },
    }
}

fn panic_line(phase: &str) -> Value {
    let (loc, msg) = LAST_PANIC
        .with(|p| p.borrow_mut().take())
        .unwrap_or_default();
    let kind = if msg == "DEADLOCK" { "deadlock" } else { "panic" };
    let mut m = msg.replace('\n', " ");
    if m.len() > 200 {
        m = m.chars().take(200).collect();
    }
    json!({"ev":"result","kind":kind,"phase":phase,"site":short_loc(&loc),"msg":m,
           "sol":[],"v":0,"graph":empty_graph(),"lines":0,"msglen":0,"dot":0,"dots":0})
}

fn empty_graph() -> Value {
    json!({"nodes":[],"edges":[],"root":0})
}

pub fn run_case(case: &Case) -> RunOutput {
    if case.cfg.mode == "synth" {
        return RunOutput { lines: crate::synth::run_synth(case), widths: vec![] };
    }
    let u = Rc::new(case.u.clone());
    let rec = Rc::new(Recorder::default());
    rec.whitebox.set(case.cfg.whitebox);
    let is_async = case.cfg.mode != "sync";
    let gates = if is_async {
        Some(Rc::new(Gates::default()))
    } else {
        None
    };
    let provider = TableProvider::new(u.clone(), rec.clone(), gates.clone(), &case.cfg);
    let maps = provider.maps.clone();
    let widths = Rc::new(RefCell::new(Vec::new()));
    let mut lines: Vec<Value> = Vec::new();

    if case.cfg.whitebox {
        resolvo::verif::start();
    }

    let add = case.cfg.act_add as f32 / 100.0;
    let decay = case.cfg.act_decay as f32 / 100.0;

    macro_rules! drive {
        ($solver:expr, $reconf:expr) => {{
            let mut solver = $solver;
            let mut dead = false;
            for (idx, p) in case.ps.iter().enumerate() {
                // in every other history the solver is re-configured between two solves (the
                // builder methods take and return the solver): the cache and the ability to
                // solve must survive that
                if idx > 0 && !dead && case.id % 2 == 0 {
                    solver = ($reconf)(solver);
                }
                lines.push(begin_line(case, idx, p));
                if dead {
                    // the solver object is unusable after a panic
                    lines.push(json!({"ev":"skipped"}));
                    lines.push(json!({"ev":"end"}));
                    continue;
                }
                // cancellation applies to one solve of the history; polls are
                // counted per solve
                solver.provider().polls.set(0);
                solver.provider().cancel_at.set(
                    if idx as u32 + 1 == case.cfg.cancel_solve { case.cfg.cancel_at } else { 0 });
                let r = catch_unwind(AssertUnwindSafe(|| {
                    let prob = RProblem::new()
                        .requirements(
                            p.reqs
                                .iter()
                                .map(|r| solver.provider().requirement(r))
                                .collect(),
                        )
                        .constraints(p.cons.iter().map(|&v| maps.vid(v)).collect())
                        .soft_requirements(p.soft.iter().map(|&s| maps.sid(s)).collect::<Vec<_>>());
                    let res = solver.solve(prob);
                    rec.drain_hooks(&maps);
                    match res {
                        Ok(sol) => {
                            let sol: Vec<u32> = sol.iter().map(|s| maps.ws(*s)).collect();
                            rec.push(&maps, json!({"ev":"result","kind":"sat","phase":"","site":"","msg":"",
                                "sol":sol,"v":0,"graph":empty_graph(),"lines":0,"msglen":0,"dot":0,"dots":0}));
                        }
                        Err(UnsolvableOrCancelled::Cancelled(v)) => {
                            let k = v.downcast_ref::<u32>().copied().unwrap_or(0);
                            rec.push(&maps, json!({"ev":"result","kind":"cancelled","phase":"","site":"","msg":"",
                                "sol":[],"v":k,"graph":empty_graph(),"lines":0,"msglen":0,"dot":0,"dots":0}));
                        }
                        Err(UnsolvableOrCancelled::Unsolvable(conflict)) => {
                            // record the verdict first: rendering may die separately
                            rec.push(&maps, json!({"ev":"verdict","kind":"unsat"}));
                            let g = conflict.graph(&solver);
                            let gj = graph_json(&g, solver.provider());
                            let (mut msg, mut nlines, mut dot, mut dots) = (String::new(), 0usize, 0usize, 0usize);
                            if case.cfg.render {
                                msg = conflict.display_user_friendly(&solver).to_string();
                                nlines = msg.lines().count();
                                let mut buf = Vec::new();
                                g.graphviz(&mut buf, solver.provider(), false).unwrap();
                                dot = buf.len();
                                let mut buf2 = Vec::new();
                                g.graphviz(&mut buf2, solver.provider(), true).unwrap();
                                dots = buf2.len();
                            }
                            rec.push(&maps, json!({"ev":"result","kind":"unsat","phase":"","site":"","msg":msg,
                                "sol":[],"v":0,"graph":gj,"lines":nlines,"msglen":msg.len(),"dot":dot,"dots":dots}));
                        }
                    }
                }));
                rec.drain_hooks(&maps);
                lines.append(&mut rec.events.borrow_mut());
                if r.is_err() {
                    let phase = if lines.iter().rev().take_while(|l| l["ev"] != "begin").any(|l| l["ev"] == "verdict") { "render" } else { "solve" };
                    lines.push(panic_line(phase));
                    dead = true;
                }
                lines.push(json!({"ev":"end"}));
            }
        }};
    }

    if is_async {
        let sched = match case.cfg.mode.as_str() {
            "lifo" | "lifo2" => Sched::Lifo,
            "rand" | "rand2" => Sched::Rand(Rng::new(case.cfg.sched_seed ^ case.id)),
            "prefix" => Sched::Prefix(case.cfg.prefix.clone(), 0),
            _ => Sched::Fifo,
        };
        let rt = GateRuntime {
            gates: gates.clone().unwrap(),
            rec: rec.clone(),
            maps: maps.clone(),
            sched: Rc::new(RefCell::new(sched)),
            widths: widths.clone(),
            blockons: Rc::new(Cell::new(0)),
        };
        let rt2 = rt.clone();
        drive!(
            Solver::new(provider).with_runtime(rt).with_activity_params(add, decay),
            |s: Solver<TableProvider, GateRuntime>| s.with_runtime(rt2.clone()).with_activity_params(add, decay)
        );
    } else {
        drive!(
            Solver::new(provider).with_activity_params(add, decay),
            |s: Solver<TableProvider, resolvo::runtime::NowOrNeverRuntime>| s
                .with_runtime(resolvo::runtime::NowOrNeverRuntime)
                .with_activity_params(add, decay)
        );
    }

    if case.cfg.whitebox {
        let _ = resolvo::verif::take();
    }
    let w = widths.borrow().clone();
    RunOutput { lines, widths: w }
}

/// Serialises the public fields of a `ConflictGraph`.
/// nodes[i] = {k: "root"|"solv"|"unres"|"excl", id}
/// edges[e] = {s, t, k: "req"|"cons"|"lock"|"excl"|"forbid", vs: [..], x}
pub fn graph_json(g: &resolvo::conflict::ConflictGraph, p: &TableProvider) -> Value {
    use petgraph::visit::EdgeRef;
    let m = &p.maps;
    let mut idx_of = std::collections::HashMap::new();
    let mut nodes = Vec::new();
    for (i, nx) in g.graph.node_indices().enumerate() {
        idx_of.insert(nx, i as u32 + 1);
        let n = match g.graph[nx] {
            ConflictNode::Solvable(s) => match s.solvable() {
                None => json!({"k":"root","id":0}),
                Some(s) => json!({"k":"solv","id":m.ws(s)}),
            },
            ConflictNode::UnresolvedDependency => json!({"k":"unres","id":0}),
            ConflictNode::Excluded(r) => json!({"k":"excl","id":r.0}),
        };
        nodes.push(n);
    }
    let mut edges = Vec::new();
    for e in g.graph.edge_references() {
        let s = idx_of[&e.source()];
        let t = idx_of[&e.target()];
        let v = match e.weight() {
            ConflictEdge::Requires(r) => {
                json!({"s":s,"t":t,"k":"req","vs":p.requirement_wire(*r),"x":0})
            }
            ConflictEdge::Conflict(ConflictCause::Constrains(v)) => {
                json!({"s":s,"t":t,"k":"cons","vs":[m.wv(*v)],"x":0})
            }
            ConflictEdge::Conflict(ConflictCause::Locked(l)) => {
                json!({"s":s,"t":t,"k":"lock","vs":[],"x":m.ws(*l)})
            }
            ConflictEdge::Conflict(ConflictCause::Excluded) => {
                json!({"s":s,"t":t,"k":"excl","vs":[],"x":0})
            }
            ConflictEdge::Conflict(ConflictCause::ForbidMultipleInstances) => {
                json!({"s":s,"t":t,"k":"forbid","vs":[],"x":0})
            }
        };
        edges.push(v);
    }
    json!({"nodes":nodes,"edges":edges,"root":idx_of[&g.root_node]})
}
