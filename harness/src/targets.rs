//! Real objects driven by the replay driver, with their observation functions.

use resolvo::{Mapping, NameId};
use serde_json::{json, Value};

use crate::replay::Target;

// ---------------------------------------------------------------------------
// Mapping (C19)
// ---------------------------------------------------------------------------
pub struct MappingTarget {
    ids: Vec<u32>,
    /// the same history is applied to mappings built by every constructor (default,
    /// pre-sized to 1 / 129 / 600 slots): what a user observes must not depend on it
    ms: Vec<Mapping<NameId, u32>>,
}

fn fresh_mappings() -> Vec<Mapping<NameId, u32>> {
    vec![
        Mapping::default(),
        Mapping::with_capacity(1),
        Mapping::with_capacity(129),
        Mapping::with_capacity(600),
    ]
}

impl MappingTarget {
    pub fn new(ids: &[u32]) -> Self {
        MappingTarget {
            ids: ids.to_vec(),
            ms: fresh_mappings(),
        }
    }
    fn obs_of(&self, m: &Mapping<NameId, u32>) -> Value {
        let get: Vec<u32> = self.ids.iter().map(|&k| m.get(NameId(k)).copied().unwrap_or(0)).collect();
        let iter: Vec<Value> = m.iter().map(|(k, v)| json!([k.0, *v])).collect();
        let ser = serde_json::to_value(m).unwrap();
        let slots = ser.as_array().map(|a| a.len()).unwrap_or(0);
        json!({"get": get, "len": m.len(), "empty": m.is_empty(), "iter": iter, "slots": slots})
    }
    fn obs(&self) -> Value {
        let all: Vec<Value> = self.ms.iter().map(|m| self.obs_of(m)).collect();
        if all.iter().all(|o| *o == all[0]) {
            all[0].clone()
        } else {
            // reported as a mismatch against the model's observation
            json!({"constructors_disagree": all})
        }
    }
}

impl Target for MappingTarget {
    /// C19 speaks of get / len / is_empty / iter and of a serde round trip that keeps the
    /// contents; how many slots the serialised form has is the format's business
    fn conforms(&self, expected: &Value, got: &Value) -> bool {
        let strip = |v: &Value| {
            let mut v = v.clone();
            if let Some(o) = v.as_object_mut() {
                o.remove("slots");
            }
            v
        };
        strip(expected) == strip(got)
    }
    fn reset(&mut self) -> Value {
        self.ms = fresh_mappings();
        self.obs()
    }
    fn apply(&mut self, op: &Value) -> Value {
        let k = op["k"].as_u64().unwrap() as u32;
        let v = op["v"].as_u64().unwrap() as u32;
        match op["op"].as_str().unwrap() {
            "insert" => {
                for m in self.ms.iter_mut() {
                    m.insert(NameId(k), v);
                }
            }
            "unset" => {
                for m in self.ms.iter_mut() {
                    m.unset(NameId(k));
                }
            }
            "roundtrip" => {
                for m in self.ms.iter_mut() {
                    let s = serde_json::to_string(&*m).unwrap();
                    *m = serde_json::from_str(&s).unwrap();
                }
            }
            o => panic!("unknown op {o}"),
        }
        self.obs()
    }
}

// ---------------------------------------------------------------------------
// Pool (C18)
// ---------------------------------------------------------------------------
#[derive(Clone, PartialEq, Eq, Debug)]
pub struct Vs(pub u32);
// A legal but useless hash (equal values hash alike - and so do all others): every two
// version sets of one package collide, so a pool that identifies a version set by its hash
// instead of by its value gives itself away.
impl std::hash::Hash for Vs {
    fn hash<H: std::hash::Hasher>(&self, _state: &mut H) {}
}
impl resolvo::utils::VersionSet for Vs {
    type V = u32;
}

type P = resolvo::utils::Pool<Vs, String>;

/// (address, value copy) of everything ever resolved
#[derive(Default)]
struct Held {
    names: Vec<(usize, String)>,
    strs: Vec<(usize, String)>,
    vss: Vec<(usize, Vs, u32)>,
    solvs: Vec<(usize, u32, u32)>,
    unions: Vec<Vec<u32>>,
}

pub struct PoolTarget {
    pool: P,
    bulk: u32,
    n: [u32; 5], // names, strs, vss, solvs, unions: 1 + highest id returned
    held: Held,
    ret: i64,
    bulk_stable: bool,
}

impl PoolTarget {
    pub fn new() -> Self {
        PoolTarget {
            pool: P::new(),
            bulk: 0,
            n: [0; 5],
            held: Held::default(),
            ret: -1,
            bulk_stable: true,
        }
    }
    fn note(&mut self, table: usize, id: u32) {
        self.n[table] = self.n[table].max(id + 1);
        self.ret = id as i64;
    }
    /// re-resolves everything handed out so far: same address, same value
    fn check_and_hold(&mut self) -> bool {
        use resolvo::{NameId, SolvableId, StringId, VersionSetId, VersionSetUnionId};
        let mut ok = true;
        for id in 0..self.n[0] {
            let r = self.pool.resolve_package_name(NameId(id));
            let cur = (r as *const String as usize, r.clone());
            match self.held.names.get(id as usize) {
                Some(h) => ok &= *h == cur,
                None => self.held.names.push(cur),
            }
        }
        for id in 0..self.n[1] {
            let r = self.pool.resolve_string(StringId(id));
            let cur = (r.as_ptr() as usize, r.to_string());
            match self.held.strs.get(id as usize) {
                Some(h) => ok &= *h == cur,
                None => self.held.strs.push(cur),
            }
        }
        for id in 0..self.n[2] {
            let r = self.pool.resolve_version_set(VersionSetId(id));
            let nm = self.pool.resolve_version_set_package_name(VersionSetId(id));
            let cur = (r as *const Vs as usize, r.clone(), nm.0);
            match self.held.vss.get(id as usize) {
                Some(h) => ok &= *h == cur,
                None => self.held.vss.push(cur),
            }
        }
        for id in 0..self.n[3] {
            let r = self.pool.resolve_solvable(SolvableId(id));
            let cur = (r as *const _ as usize, r.name.0, r.record);
            match self.held.solvs.get(id as usize) {
                Some(h) => ok &= *h == cur,
                None => self.held.solvs.push(cur),
            }
        }
        for id in 0..self.n[4] {
            let cur: Vec<u32> = self
                .pool
                .resolve_version_set_union(VersionSetUnionId(id))
                .map(|v| v.0)
                .collect();
            match self.held.unions.get(id as usize) {
                Some(h) => ok &= *h == cur,
                None => self.held.unions.push(cur),
            }
        }
        ok
    }
    fn obs(&mut self) -> Value {
        let stable = self.check_and_hold();
        let b = self.bulk as usize;
        let val = |s: &str| -> u32 { s[1..].parse().unwrap() };
        let names: Vec<u32> = self.held.names[b.min(self.held.names.len())..].iter().map(|h| val(&h.1)).collect();
        let strs: Vec<u32> = self.held.strs[b.min(self.held.strs.len())..].iter().map(|h| val(&h.1)).collect();
        let vss: Vec<Value> = self.held.vss[b.min(self.held.vss.len())..].iter().map(|h| json!([h.2, h.1 .0])).collect();
        let solvs: Vec<Value> = self.held.solvs[b.min(self.held.solvs.len())..].iter().map(|h| json!([h.1, h.2])).collect();
        let unions: Vec<Value> = self.held.unions[b.min(self.held.unions.len())..].iter().map(|h| json!(h)).collect();
        // the bulk part must resolve to what was interned
        let mut bulk_ok = true;
        for i in 0..b {
            bulk_ok &= self.held.names[i].1 == format!("n{}", 1001 + i)
                && self.held.strs[i].1 == format!("s{}", 1001 + i)
                && self.held.vss[i].1 == Vs(1001 + i as u32)
                && self.held.vss[i].2 == i as u32
                && self.held.solvs[i].1 == i as u32
                && self.held.solvs[i].2 == 1001 + i as u32
                && self.held.unions[i] == vec![i as u32];
        }
        let lookup: Vec<i64> = (1..=2u32)
            .map(|v| {
                self.pool
                    .lookup_package_name(&format!("n{v}"))
                    .map(|n| n.0 as i64)
                    .unwrap_or(-1)
            })
            .collect();
        json!({"ret": self.ret, "bulk": self.bulk,
            "n_names": self.n[0], "n_strs": self.n[1], "n_vss": self.n[2], "n_solvs": self.n[3], "n_unions": self.n[4],
            "names": names, "strs": strs, "vss": vss, "solvs": solvs, "unions": unions,
            "lookup": lookup, "stable": stable && bulk_ok && self.bulk_stable})
    }
}

impl Target for PoolTarget {
    fn reset(&mut self) -> Value {
        *self = PoolTarget::new();
        json!({"start": true})
    }
    fn apply(&mut self, op: &Value) -> Value {
        use resolvo::{NameId, VersionSetId};
        let a = op["a"].as_u64().unwrap() as u32;
        let b = op["b"].as_u64().unwrap() as u32;
        match op["op"].as_str().unwrap() {
            "bulk" => {
                self.bulk = a;
                for i in 0..a {
                    let n = self.pool.intern_package_name(format!("n{}", 1001 + i));
                    self.note(0, n.0);
                    let s = self.pool.intern_string(format!("s{}", 1001 + i));
                    self.note(1, s.0);
                    let v = self.pool.intern_version_set(n, Vs(1001 + i));
                    self.note(2, v.0);
                    let sv = self.pool.intern_solvable(n, 1001 + i);
                    self.note(3, sv.0);
                    let u = self.pool.intern_version_set_union(v, std::iter::empty());
                    self.note(4, u.0);
                    // take (and keep) a reference to every element as soon as it exists, so
                    // that a later insertion that moves it is noticed
                    self.bulk_stable &= self.check_and_hold();
                }
                self.ret = -1;
            }
            "name" => {
                let n = self.pool.intern_package_name(format!("n{a}"));
                self.note(0, n.0);
            }
            "string" => {
                let s = self.pool.intern_string(format!("s{a}"));
                self.note(1, s.0);
            }
            "vs" => {
                let v = self.pool.intern_version_set(NameId(self.bulk + a - 1), Vs(b));
                self.note(2, v.0);
            }
            "solvable" => {
                let s = self.pool.intern_solvable(NameId(self.bulk + a - 1), b);
                self.note(3, s.0);
            }
            "union" => {
                let u = self.pool.intern_version_set_union(
                    VersionSetId(self.bulk + a - 1),
                    std::iter::once(VersionSetId(self.bulk + b - 1)),
                );
                self.note(4, u.0);
            }
            "union_nested" => {
                // the iterator of the outer union interns another union while it is consumed
                let x = VersionSetId(self.bulk + a - 1);
                let y = VersionSetId(self.bulk + b - 1);
                let pool = &self.pool;
                let mut inner = None;
                let u = pool.intern_version_set_union(
                    x,
                    std::iter::once_with(|| {
                        inner = Some(pool.intern_version_set_union(y, std::iter::empty()));
                        y
                    }),
                );
                let inner = inner.expect("the iterator was consumed");
                self.note(4, inner.0);
                self.note(4, u.0);
            }
            o @ ("union1" | "union3" | "union4") => {
                // members by position (a, 3 - a): <<a>>, <<a, 3-a, a>>, <<a, a, 3-a, a>>;
                // b = 1: an iterator with an exact size hint, b = 2: one without
                let x = VersionSetId(self.bulk + a - 1);
                let y = VersionSetId(self.bulk + (3 - a) - 1);
                let rest: Vec<VersionSetId> = match o {
                    "union1" => vec![],
                    "union3" => vec![y, x],
                    _ => vec![x, y, x],
                };
                let u = if b == 1 {
                    self.pool.intern_version_set_union(x, rest.into_iter())
                } else {
                    self.pool.intern_version_set_union(x, rest.into_iter().filter(|_| true))
                };
                self.note(4, u.0);
            }
            o => panic!("unknown op {o}"),
        }
        self.obs()
    }
}

// ---------------------------------------------------------------------------
// AtMostOnceTracker (C15), observed through the solver's hook stream: a package
// with n candidates is revealed to the real encoder, the forbid clauses it emits
// are mapped back to (registration index, helper bit, polarity)
// ---------------------------------------------------------------------------
pub struct AmoTarget {
    n: u32,
    readd: bool,
    /// every observation is a fresh solve of a wide universe and depends on
    /// (n, readd) only, so it is computed once per pair
    memo: std::collections::HashMap<(u32, bool), Value>,
}
impl AmoTarget {
    pub fn new() -> Self {
        AmoTarget { n: 0, readd: false, memo: Default::default() }
    }
    fn obs(&mut self) -> Value {
        if let Some(v) = self.memo.get(&(self.n, self.readd)) {
            return v.clone();
        }
        let v = self.obs_fresh();
        self.memo.insert((self.n, self.readd), v.clone());
        v
    }
    fn obs_fresh(&self) -> Value {
        if self.n == 0 {
            return json!({"n": 0, "helpers": 0, "cls": []});
        }
        // one group reveals every candidate; with `readd` a second requirement lists
        // them again (registration must be idempotent)
        let all: Vec<u32> = (1..=self.n).collect();
        let groups = if self.readd { vec![all.clone(), all.clone()] } else { vec![all.clone()] };
        let (u, p) = crate::gen::wide_universe(self.n, &groups, &[]);
        let case = crate::model::Case {
            id: 1,
            profile: "amo".into(),
            u,
            ps: vec![p],
            cfg: crate::model::Cfg { whitebox: true, render: false, ..Default::default() },
        };
        let o = crate::run::run_case(&case);
        let mut cand_index: std::collections::HashMap<u64, u64> = Default::default(); // var -> registration index
        let mut helper_index: std::collections::HashMap<u64, u64> = Default::default(); // helper var -> bit
        let mut cls: Vec<(u64, u64, u64)> = Vec::new();
        for e in &o.lines {
            if e["ev"] == "var" && e["name"] == 1 {
                let k = helper_index.len() as u64;
                helper_index.insert(e["v"].as_u64().unwrap(), k);
            }
        }
        // registration order = order of first appearance as the subject of a forbid
        // clause, except the very first candidate (no clause until a second one comes):
        // candidates are registered in the order of the requires clause's literals
        for e in &o.lines {
            if e["ev"] == "clause" && e["kind"] == "requires" && cand_index.is_empty() {
                let lits = e["lits"].as_array().unwrap();
                let wide: Vec<u64> = lits.iter().filter(|l| l[1] == 1).map(|l| l[0].as_u64().unwrap()).collect();
                if wide.len() as u32 == self.n && self.n > 0 {
                    for (i, v) in wide.iter().enumerate() {
                        cand_index.insert(*v, i as u64);
                    }
                }
            }
        }
        for e in &o.lines {
            if e["ev"] == "clause" && e["kind"] == "forbid" && e["b"] == 1 {
                let a = e["a"].as_u64().unwrap();
                let hv = e["vs"][0].as_u64().unwrap();
                let pol = e["vs"][1].as_u64().unwrap();
                if let (Some(i), Some(b)) = (cand_index.get(&a), helper_index.get(&hv)) {
                    cls.push((*i, *b, pol));
                } else {
                    cls.push((9999, 9999, pol));
                }
            }
        }
        cls.sort();
        let total = cls.len();
        cls.dedup();
        let dup = total != cls.len();
        json!({"n": self.n, "helpers": if self.n >= 2 { helper_index.len() } else { 0 },
               "cls": cls.iter().map(|c| json!([c.0, c.1, c.2])).collect::<Vec<_>>(),
               })
        .as_object()
        .map(|o| {
            let mut o = o.clone();
            if dup {
                o.insert("duplicates".into(), json!(true));
            }
            Value::Object(o)
        })
        .unwrap()
    }
}
/// C15, implementation -> spec: the real forbid-clause stream for a list of sizes
pub fn amo_dump(args: &[String]) {
    use std::io::Write;
    let ns: Vec<u32> = crate::get_arg(args, "--ns").expect("--ns").split(',').map(|s| s.parse().unwrap()).collect();
    let out = crate::get_arg(args, "--out").expect("--out");
    let mut f = std::io::BufWriter::new(std::fs::File::create(out).unwrap());
    for n in ns {
        let t = AmoTarget { n, readd: false, memo: Default::default() };
        let mut o = t.obs_fresh();
        o["ev"] = json!("amo");
        writeln!(f, "{o}").unwrap();
    }
}

impl Target for AmoTarget {
    fn reset(&mut self) -> Value {
        self.n = 0;
        self.readd = false;
        self.obs()
    }
    fn apply(&mut self, op: &Value) -> Value {
        match op["op"].as_str().unwrap() {
            "add" => {
                self.n += 1;
                self.readd = false;
            }
            "readd" => self.readd = true,
            o => panic!("unknown op {o}"),
        }
        self.obs()
    }
}
// ---------------------------------------------------------------------------
// SolverCache (C20)
// ---------------------------------------------------------------------------
pub struct CacheTarget {
    cache: Option<resolvo::SolverCache<crate::provider::TableProvider>>,
    rec: std::rc::Rc<crate::provider::Recorder>,
}

impl CacheTarget {
    pub fn new(_u: &str) -> Self {
        CacheTarget {
            cache: None,
            rec: Default::default(),
        }
    }
}

impl Target for CacheTarget {
    fn reset(&mut self) -> Value {
        self.cache = None;
        json!({"start": true})
    }
    /// Value and availability answers must be exactly the model's.  For the provider calls
    /// C20 / C09 say: a query whose answer is cached makes NO call; candidates of a package
    /// and dependencies of a solvable are requested exactly when the model says so (never
    /// twice, never needlessly).  How many filter_candidates / sort_candidates calls a
    /// first-time query needs is the implementation's business (e.g. a non-matching list
    /// computed as the complement of a cached matching list).
    fn conforms(&self, expected: &Value, got: &Value) -> bool {
        if expected.get("calls").is_none() || got.get("calls").is_none() {
            return expected == got;
        }
        if expected["val"] != got["val"] || expected["avail"] != got["avail"] {
            return false;
        }
        let fetches = |v: &Value| -> Vec<String> {
            let mut f: Vec<String> = v["calls"]
                .as_array()
                .map(|a| a.iter().filter(|c| c[0] == "cands" || c[0] == "deps").map(|c| c.to_string()).collect())
                .unwrap_or_default();
            f.sort();
            f
        };
        let n_exp = expected["calls"].as_array().map(|a| a.len()).unwrap_or(0);
        let n_got = got["calls"].as_array().map(|a| a.len()).unwrap_or(0);
        (n_exp > 0 || n_got == 0) && fetches(expected) == fetches(got)
    }
    fn apply(&mut self, op: &Value) -> Value {
        use futures::FutureExt;
        use resolvo::{Dependencies, Requirement};
        if op["op"] == "load" {
            let u: crate::model::Universe = serde_json::from_value(op["u"].clone()).expect("universe");
            self.rec = Default::default();
            let p = crate::provider::TableProvider::new(
                std::rc::Rc::new(u),
                self.rec.clone(),
                None,
                &crate::model::Cfg::default(),
            );
            self.cache = Some(resolvo::SolverCache::new(p));
            return json!({"loaded": true});
        }
        let cache = self.cache.as_ref().expect("loaded");
        let m = cache.provider().maps.clone();
        let a: Vec<u32> = op["a"].as_array().unwrap().iter().map(|x| x.as_u64().unwrap() as u32).collect();
        self.rec.events.borrow_mut().clear();
        let ws = |v: &[resolvo::SolvableId]| -> Vec<u32> { v.iter().map(|s| m.ws(*s)).collect() };
        let val = match op["op"].as_str().unwrap() {
            "cands" => {
                let c = cache.get_or_cache_candidates(m.nid(a[0])).now_or_never().unwrap().ok().unwrap();
                json!({"cands": ws(&c.candidates), "favored": c.favored.map(|s| m.ws(s)).unwrap_or(0),
                       "locked": c.locked.map(|s| m.ws(s)).unwrap_or(0),
                       "excluded": c.excluded.iter().map(|(s, _)| m.ws(*s)).collect::<Vec<_>>()})
            }
            "matching" => json!(ws(cache.get_or_cache_matching_candidates(m.vid(a[0])).now_or_never().unwrap().ok().unwrap())),
            "nonmatching" => json!(ws(cache.get_or_cache_non_matching_candidates(m.vid(a[0])).now_or_never().unwrap().ok().unwrap())),
            "sorted" => {
                let r: Requirement = cache.provider().requirement(&a);
                json!(ws(cache.get_or_cache_sorted_candidates(r).now_or_never().unwrap().ok().unwrap()))
            }
            "deps" => {
                let d = cache.get_or_cache_dependencies(m.sid(a[0])).now_or_never().unwrap().ok().unwrap();
                match d {
                    Dependencies::Unknown(_) => json!({"known": false, "reqs": [], "cons": []}),
                    Dependencies::Known(k) => json!({"known": true,
                        "reqs": k.requirements.iter().map(|r| cache.provider().requirement_wire(*r)).collect::<Vec<_>>(),
                        "cons": k.constrains.iter().map(|v| m.wv(*v)).collect::<Vec<_>>()}),
                }
            }
            o => panic!("unknown op {o}"),
        };
        let calls: Vec<Value> = self
            .rec
            .events
            .borrow()
            .iter()
            .filter(|e| e["ev"] == "call")
            .map(|e| json!([e["kind"], e["arg"], e["inv"]]))
            .collect();
        let n = cache.provider().u.solv.len() as u32;
        let avail: Vec<bool> = (1..=n).map(|s| cache.are_dependencies_available_for(m.sid(s))).collect();
        json!({"val": val, "calls": calls, "avail": avail})
    }
}

// ---------------------------------------------------------------------------
// C19, implementation -> spec: random histories with arbitrary ids
// ---------------------------------------------------------------------------
pub fn mapping_histories(args: &[String]) {
    use std::io::Write;
    let n: u64 = crate::get_arg(args, "--n").map(|s| s.parse().unwrap()).unwrap_or(50);
    let seed: u64 = crate::get_arg(args, "--seed").map(|s| s.parse().unwrap()).unwrap_or(1);
    let out = crate::get_arg(args, "--out").expect("--out");
    let mut f = std::io::BufWriter::new(std::fs::File::create(out).unwrap());
    let mut rng = crate::rng::Rng::new(seed ^ 0x3A9);
    for h in 0..n {
        writeln!(f, "{}", json!({"ev":"reset","id":h + 1})).unwrap();
        let mut m: Mapping<NameId, u32> = match rng.range(0, 4) {
            0 => Mapping::default(),
            1 => Mapping::with_capacity(1),
            2 => Mapping::with_capacity(129),
            3 => Mapping::with_capacity(rng.range(1, 700) as usize),
            _ => Mapping::with_capacity(5000),
        };
        // a small pool of ids per history: dense, around chunk boundaries, and large
        let mut pool: Vec<u32> = Vec::new();
        let k = rng.range(3, 10);
        for _ in 0..k {
            pool.push(match rng.below(4) {
                0 => rng.range(0, 6),
                1 => rng.range(120, 135),
                2 => rng.range(250, 260),
                _ => rng.range(0, 5000),
            });
        }
        let steps = rng.range(20, 60);
        for _ in 0..steps {
            let id = *rng.pick(&pool);
            let (op, v) = match rng.below(10) {
                0..=5 => ("insert", rng.range(1, 9)),
                6..=8 => ("unset", 0),
                _ => ("roundtrip", 0),
            };
            match op {
                "insert" => {
                    m.insert(NameId(id), v);
                }
                "unset" => {
                    m.unset(NameId(id));
                }
                _ => {
                    let s = serde_json::to_string(&m).unwrap();
                    m = serde_json::from_str(&s).unwrap();
                }
            }
            let iter: Vec<Value> = m.iter().map(|(k, v)| json!([k.0, *v])).collect();
            let slots = serde_json::to_value(&m).unwrap().as_array().map(|a| a.len()).unwrap_or(0);
            writeln!(f, "{}", json!({"ev":"op","op":op,"k":id,"v":v,"len":m.len(),"empty":m.is_empty(),
                "get": m.get(NameId(id)).copied().unwrap_or(0), "iter": iter, "slots": slots})).unwrap();
        }
    }
    f.flush().unwrap();
}

// ---------------------------------------------------------------------------
// C18: long random histories on a real Pool for Trace_Pool.tla
// ---------------------------------------------------------------------------
pub fn pool_histories(args: &[String]) {
    use resolvo::{NameId, SolvableId, StringId, VersionSetId, VersionSetUnionId};
    use std::io::Write;
    let n: u64 = crate::get_arg(args, "--n").map(|s| s.parse().unwrap()).unwrap_or(10);
    let ops: u32 = crate::get_arg(args, "--ops").map(|s| s.parse().unwrap()).unwrap_or(600);
    let seed: u64 = crate::get_arg(args, "--seed").map(|s| s.parse().unwrap()).unwrap_or(1);
    let out = crate::get_arg(args, "--out").expect("--out");
    let mut f = std::io::BufWriter::new(std::fs::File::create(out).unwrap());
    let mut rng = crate::rng::Rng::new(seed ^ 0x9001);
    for h in 0..n {
        writeln!(f, "{}", json!({"ev":"reset","id":h + 1})).unwrap();
        let mut t = PoolTarget::new();
        // value alphabets: large enough that most calls intern something new, small
        // enough that repeats are frequent
        let name_vals = rng.range(150, 400);
        let str_vals = rng.range(150, 400);
        for _ in 0..ops {
            let mut a = 0u32;
            let mut b = 0u32;
            let mut ms: Vec<u32> = vec![];
            let mut ret: i64;
            let have_names = t.n[0] > 0;
            let have_vss = t.n[2] > 0;
            let op = match rng.below(20) {
                0..=4 => "name",
                5..=7 => "string",
                8..=11 if have_names => "vs",
                12..=15 if have_names => "solvable",
                16..=17 if have_vss => "union",
                18 => "lookup",
                _ => "name",
            };
            match op {
                "name" => {
                    a = rng.range(1, name_vals);
                    let id = t.pool.intern_package_name(format!("n{a}"));
                    t.note(0, id.0);
                    ret = id.0 as i64;
                }
                "string" => {
                    a = rng.range(1, str_vals);
                    let id = t.pool.intern_string(format!("s{a}"));
                    t.note(1, id.0);
                    ret = id.0 as i64;
                }
                "vs" => {
                    a = rng.below(t.n[0] as u64) as u32;
                    b = rng.range(1, 6);
                    let id = t.pool.intern_version_set(NameId(a), Vs(b));
                    t.note(2, id.0);
                    ret = id.0 as i64;
                }
                "solvable" => {
                    a = rng.below(t.n[0] as u64) as u32;
                    b = rng.range(1, 9);
                    let id = t.pool.intern_solvable(NameId(a), b);
                    t.note(3, id.0);
                    ret = id.0 as i64;
                }
                "union" => {
                    let k = rng.range(1, 6);
                    for _ in 0..k {
                        ms.push(rng.below(t.n[2] as u64) as u32);
                    }
                    // the members arrive through an iterator that knows its length, or one
                    // that does not
                    let id = if rng.chance(0.5) {
                        t.pool.intern_version_set_union(VersionSetId(ms[0]), ms[1..].iter().map(|&m| VersionSetId(m)))
                    } else {
                        t.pool.intern_version_set_union(
                            VersionSetId(ms[0]),
                            ms[1..].iter().filter(|_| true).map(|&m| VersionSetId(m)),
                        )
                    };
                    t.note(4, id.0);
                    ret = id.0 as i64;
                }
                _ => {
                    a = rng.range(1, name_vals);
                    ret = t.pool.lookup_package_name(&format!("n{a}")).map(|x| x.0 as i64).unwrap_or(-1);
                }
            }
            let stable = t.check_and_hold();
            // resolve one further id and report its value
            let val = |s: &str| -> u32 { s[1..].parse().unwrap() };
            let tables = ["name", "string", "vs", "solvable", "union"];
            let cand: Vec<usize> = (0..5).filter(|&i| t.n[i] > 0).collect();
            let (rt, rid, rval): (&str, u32, Vec<u32>) = if cand.is_empty() {
                ("name", 0, vec![u32::MAX])
            } else {
                let ti = *rng.pick(&cand);
                let id = rng.below(t.n[ti] as u64) as u32;
                let v = match ti {
                    0 => vec![val(t.pool.resolve_package_name(NameId(id)))],
                    1 => vec![val(t.pool.resolve_string(StringId(id)))],
                    2 => vec![
                        t.pool.resolve_version_set_package_name(VersionSetId(id)).0,
                        t.pool.resolve_version_set(VersionSetId(id)).0,
                    ],
                    3 => {
                        let s = t.pool.resolve_solvable(SolvableId(id));
                        vec![s.name.0, s.record]
                    }
                    _ => t.pool.resolve_version_set_union(VersionSetUnionId(id)).map(|v| v.0).collect(),
                };
                (tables[ti], id, v)
            };
            if ret < -1 {
                ret = -1;
            }
            let rv: Vec<i64> = rval.iter().map(|&x| if x == u32::MAX { -1 } else { x as i64 }).collect();
            writeln!(f, "{}", json!({"ev":"op","op":op,"a":a,"b":b,"ms":ms,"ret":ret,"stable":stable,
                "rt":rt,"rid":rid,"rval":rv})).unwrap();
        }
    }
    f.flush().unwrap();
}
